(* C37 — shadow composition over any two clients, the refinement of every history to the contract
   name |-> bytes, soundness of the oracle C37_check, and the readable corollaries. *)
From Coq Require Import List NArith Bool Lia PeanoNat.
From K.Model Require Import C37.
From K.Proof Require Import PathLib C37_base C37_pages C37_engines C37_lists.
Import ListNotations.
Local Open Scope N_scope.

(* ------------------------------------------------------------------ shadow over ANY two clients that honour the contract *)

Section ShadowContract.
  Context {SA SB : Type} (stepA : SA -> op -> SA * out) (stepB : SB -> op -> SB * out).
  Variables (RA : SA -> store -> Prop) (RB : SB -> store -> Prop).   (* "the client's engine holds this store" *)
  Variables (D : str -> Prop) (V : str -> Prop).                     (* names / contents both clients accept *)
  Variables (tA tB : bool).                                          (* does the client track sizes *)
  Hypothesis A_up : forall a s n v, RA a s -> D n -> V v ->
    exists a', stepA a (Upload n v) = (a', OOk) /\ RA a' (sset n v s).
  Hypothesis A_dl : forall a s n, RA a s -> D n -> stepA a (Download n) = (a, get_spec (sget n s)).
  Hypothesis A_st : forall a s n, RA a s -> D n -> stepA a (Stat n) = (a, stat_spec tA (sget n s)).
  Hypothesis B_up : forall b s n v, RB b s -> D n -> V v ->
    exists b', stepB b (Upload n v) = (b', OOk) /\ RB b' (sset n v s).
  Hypothesis B_st : forall b s n, RB b s -> D n -> stepB b (Stat n) = (b, stat_spec tB (sget n s)).

  Lemma shadow_upload : forall a b sa sb n v, RA a sa -> RB b sb -> D n -> V v ->
    exists a' b', shadow_step stepA stepB (a, b) (Upload n v) = ((a', b'), OOk) /\
                  RA a' (sset n v sa) /\ RB b' (sset n v sb).
  Proof.
    intros a b sa sb n v Ha Hb Hn Hv.
    destruct (A_up a sa n v Ha Hn Hv) as [a' [Ea Ra]]. destruct (B_up b sb n v Hb Hn Hv) as [b' [Eb Rb]].
    exists a', b'. cbn [shadow_step]. rewrite Ea, Eb. auto.
  Qed.

  Lemma shadow_download : forall a b sa n, RA a sa -> D n ->
    shadow_step stepA stepB (a, b) (Download n) = ((a, b), get_spec (sget n sa)).
  Proof. intros a b sa n Ha Hn. cbn [shadow_step]. rewrite (A_dl a sa n Ha Hn). reflexivity. Qed.

  Lemma shadow_stat_both : forall a b sa sb n, RA a sa -> RB b sb -> D n ->
    shadow_step stepA stepB (a, b) (Stat n) =
    ((a, b), match sget n sb with Some _ => stat_spec tA (sget n sa) | None => ONotFound end).
  Proof.
    intros a b sa sb n Ha Hb Hn. cbn [shadow_step]. rewrite (A_st a sa n Ha Hn), (B_st b sb n Hb Hn).
    destruct (sget n sa), (sget n sb); reflexivity.
  Qed.

  Lemma shadow_side_a : forall a b sa n v, RA a sa -> D n -> V v ->
    exists a', shadow_step stepA stepB (a, b) (SideUpload false n v) = ((a', b), OOk) /\ RA a' (sset n v sa).
  Proof.
    intros a b sa n v Ha Hn Hv. destruct (A_up a sa n v Ha Hn Hv) as [a' [Ea Ra]].
    exists a'. cbn [shadow_step]. rewrite Ea. auto.
  Qed.

  Lemma shadow_side_b : forall a b sb n v, RB b sb -> D n -> V v ->
    exists b', shadow_step stepA stepB (a, b) (SideUpload true n v) = ((a, b'), OOk) /\ RB b' (sset n v sb).
  Proof.
    intros a b sb n v Hb Hn Hv. destruct (B_up b sb n v Hb Hn Hv) as [b' [Eb Rb]].
    exists b'. cbn [shadow_step]. rewrite Eb. auto.
  Qed.

  (* with both components holding the same store the shadow client is a client of that store *)
  Theorem shadow_contract : forall a b s n, RA a s -> RB b s -> D n ->
    (forall v, V v -> exists a' b', shadow_step stepA stepB (a, b) (Upload n v) = ((a', b'), OOk) /\
                                    RA a' (sset n v s) /\ RB b' (sset n v s)) /\
    shadow_step stepA stepB (a, b) (Download n) = ((a, b), get_spec (sget n s)) /\
    shadow_step stepA stepB (a, b) (Stat n) = ((a, b), stat_spec tA (sget n s)).
  Proof.
    intros a b s n Ha Hb Hn. split; [|split].
    - intros v Hv. apply shadow_upload; assumption.
    - apply shadow_download; assumption.
    - rewrite (shadow_stat_both a b s s n Ha Hb Hn). destruct (sget n s); reflexivity.
  Qed.
End ShadowContract.

(* ------------------------------------------------------------------ histories *)

Lemma out_match_get : forall v, out_match (get_spec v) (get_spec v) = true.
Proof. intros [b|]; cbn; [apply str_eqb_refl|reflexivity]. Qed.
Lemma out_match_stat : forall t v, out_match (stat_spec t v) (stat_spec t v) = true.
Proof. intros t [b|]; cbn; [apply N.eqb_refl|reflexivity]. Qed.

Lemma estep_list_state : forall c x p md zss, fst (estep c x (List p md zss)) = x.
Proof.
  intros c [m|m|m] p md zss; cbn [estep].
  - destruct md; cbn [fs_step]; [|reflexivity].
    destruct (aget str_eqb _ m); [reflexivity|]. destruct (is_dir _ m); [|reflexivity].
    destruct (all_some _); reflexivity.
  - cbn [sql_step]. destruct (is_nil p); reflexivity.
  - destruct md; reflexivity.
Qed.

(* what the guard allows in a history, as a proposition *)
Fixpoint allowed (c : cfg) (ns : list str) (ea eb : ek) (side_ok : bool) (ops : list op) : Prop :=
  match ops with
  | [] => True
  | o :: t =>
      match o with
      | Upload n v => In n ns /\ cont_ok c ea v = true /\ cont_ok c eb v = true
      | SideUpload _ n v => side_ok = true /\ In n ns /\ cont_ok c ea v = true /\ cont_ok c eb v = true
      | Download n | Stat n => In n ns
      | List _ _ _ => True
      | RawPut _ _ => False
      end /\ allowed c ns ea eb side_ok t
  end.

Lemma cont_ok_of_guard : forall c e ops v,
  match e with
  | KSql => negb (sql_zero c) || forallb (fun v => negb (is_nil v)) (contents_of ops)
  | _ => true
  end = true -> In v (contents_of ops) -> cont_ok c e v = true.
Proof.
  intros c e ops v H Hin. destruct e; try reflexivity. unfold cont_ok.
  destruct (sql_zero c); [|reflexivity]. cbn [negb orb] in *.
  rewrite forallb_forall in H. apply H. exact Hin.
Qed.

Lemma allowed_of_bools : forall c ns ea eb side_ok ops,
  incl (names_of ops) ns ->
  (forall v, In v (contents_of ops) -> cont_ok c ea v = true /\ cont_ok c eb v = true) ->
  no_raw ops = true -> (side_ok = false -> no_side ops = true) ->
  allowed c ns ea eb side_ok ops.
Proof.
  intros c ns ea eb side_ok. induction ops as [|o t IH]; intros Hn Hc Hr Hs; [exact I|].
  cbn [allowed]. unfold no_raw, no_side in *. cbn [forallb] in Hr.
  apply andb_true_iff in Hr. destruct Hr as [Hr1 Hr2].
  assert (Hs' : side_ok = false -> forallb (fun o => match o with SideUpload _ _ _ => false | _ => true end) t = true).
  { intros E. specialize (Hs E). cbn [forallb] in Hs. apply andb_true_iff in Hs. tauto. }
  assert (IHt : incl (names_of t) ns ->
                (forall v, In v (contents_of t) -> cont_ok c ea v = true /\ cont_ok c eb v = true) ->
                allowed c ns ea eb side_ok t)
    by (intros A B; apply IH; [exact A|exact B|exact Hr2|exact Hs']).
  destruct o as [n v|n|n|p md zss|k v|sd n v]; cbn [names_of contents_of] in Hn, Hc.
  - split.
    + split; [apply Hn; left; reflexivity|apply Hc; left; reflexivity].
    + apply IHt; [intros x Hx; apply Hn; right; exact Hx|intros x Hx; apply Hc; right; exact Hx].
  - split; [apply Hn; left; reflexivity|apply IHt; [intros x Hx; apply Hn; right; exact Hx|exact Hc]].
  - split; [apply Hn; left; reflexivity|apply IHt; [intros x Hx; apply Hn; right; exact Hx|exact Hc]].
  - split; [exact I|apply IHt; assumption].
  - discriminate.
  - split.
    + split.
      * destruct side_ok; [reflexivity|]. specialize (Hs eq_refl). cbn [forallb] in Hs. discriminate.
      * split; [apply Hn; left; reflexivity|apply Hc; left; reflexivity].
    + apply IHt; [intros x Hx; apply Hn; right; exact Hx|intros x Hx; apply Hc; right; exact Hx].
Qed.

Lemma run_cons : forall c s o t,
  run c s (o :: t) = (fst (run c (fst (step c s o)) t), snd (step c s o) :: snd (run c (fst (step c s o)) t)).
Proof.
  intros c s o t. cbn [run]. destruct (step c s o) as [s1 r]. cbn [fst snd].
  destruct (run c s1 t) as [s2 rs]. reflexivity.
Qed.

Lemma run_app : forall c s ops1 ops2,
  run c s (ops1 ++ ops2) =
  (fst (run c (fst (run c s ops1)) ops2), snd (run c s ops1) ++ snd (run c (fst (run c s ops1)) ops2)).
Proof.
  intros c s ops1. revert s. induction ops1 as [|o t IH]; intros s ops2.
  - cbn [app run fst snd]. destruct (run c s ops2); reflexivity.
  - cbn [app]. rewrite !run_cons, IH. cbn [fst snd app]. reflexivity.
Qed.

(* ---- a single client *)
Section Single.
  Variables (c : cfg) (e : ek) (ns : list str) (glist : bool).
  Hypothesis G : EGuard c e ns.
  Hypothesis Hround : glist = true -> forall n, In n ns -> round_ok c e n = true.

  Lemma run_single : forall ops x s,
    allowed c ns e e false ops -> ERel c ns e x s ->
    check_from c e e glist s s ops (snd (run c (St1 x) ops)) = true /\
    exists x', fst (run c (St1 x) ops) = St1 x' /\
               ERel c ns e x' (fst (stores_from s s ops)) /\
               snd (stores_from s s ops) = fst (stores_from s s ops).
  Proof.
    induction ops as [|o t IH]; intros x s Ha R.
    - cbn. split; [reflexivity|]. exists x. auto.
    - rewrite run_cons. cbn [fst snd]. cbn [allowed] in Ha. destruct Ha as [Ho Ht].
      destruct o as [n v|n|n|p md zss|k v|sd n v].
      + destruct Ho as [Hn [Hc _]].
        destruct (estep_upload c ns e x s n v G R Hn Hc) as [x' [Ex Rx]].
        cbn [step]. rewrite Ex. cbn [fst snd check_from stores_from].
        destruct (IH x' (sset n v s) Ht Rx) as [I1 I2]. rewrite I1. split; [reflexivity|exact I2].
      + cbn [step]. rewrite (estep_download c ns e x s n G R Ho). cbn [fst snd check_from stores_from].
        rewrite out_match_get. destruct (IH x s Ht R) as [I1 I2]. rewrite I1. split; [reflexivity|exact I2].
      + cbn [step]. rewrite (estep_stat c ns e x s n G R Ho). cbn [fst snd check_from stores_from].
        destruct (IH x s Ht R) as [I1 I2]. rewrite I1. split; [|exact I2].
        destruct (sget n s); cbn; [rewrite N.eqb_refl|]; reflexivity.
      + cbn [step]. pose proof (estep_list_state c x p md zss) as Hst.
        destruct (estep c x (List p md zss)) as [x1 r] eqn:Ex. cbn [fst] in Hst. subst x1.
        cbn [fst snd check_from stores_from]. destruct (IH x s Ht R) as [I1 I2]. rewrite I1. split; [|exact I2].
        rewrite andb_true_r. destruct glist eqn:Eg; [|reflexivity]. cbn [negb orb].
        destruct (estep_list c ns e x s p md zss G R (Hround eq_refl)) as [r' [E1 E2]]. rewrite Ex in E1.
        inversion E1; subst. exact E2.
      + contradiction.
      + destruct Ho as [Hf _]. discriminate.
  Qed.
End Single.

(* ---- a shadow client *)
Section Shadowed.
  Variables (c : cfg) (ea eb : ek) (ns : list str) (glist : bool).
  Hypothesis GA : EGuard c ea ns.
  Hypothesis GB : EGuard c eb ns.
  Hypothesis Hround : glist = true -> forall n, In n ns -> round_ok c ea n = true.

  Let D := fun n : str => In n ns.
  Let V := fun v : str => cont_ok c ea v = true /\ cont_ok c eb v = true.

  Lemma A_up : forall a s n v, ERel c ns ea a s -> D n -> V v ->
    exists a', estep c a (Upload n v) = (a', OOk) /\ ERel c ns ea a' (sset n v s).
  Proof. intros a s n v R Hn [Hv _]. eapply estep_upload; eassumption. Qed.
  Lemma B_up : forall b s n v, ERel c ns eb b s -> D n -> V v ->
    exists b', estep c b (Upload n v) = (b', OOk) /\ ERel c ns eb b' (sset n v s).
  Proof. intros b s n v R Hn [_ Hv]. eapply estep_upload; eassumption. Qed.

  Lemma run_shadow : forall ops xa xb sa sb,
    allowed c ns ea eb true ops -> ERel c ns ea xa sa -> ERel c ns eb xb sb ->
    check_from c ea eb glist sa sb ops (snd (run c (St2 xa xb) ops)) = true /\
    exists xa' xb', fst (run c (St2 xa xb) ops) = St2 xa' xb' /\
                    ERel c ns ea xa' (fst (stores_from sa sb ops)) /\
                    ERel c ns eb xb' (snd (stores_from sa sb ops)).
  Proof.
    induction ops as [|o t IH]; intros xa xb sa sb Ha RA RB.
    - cbn. split; [reflexivity|]. exists xa, xb. auto.
    - rewrite run_cons. cbn [fst snd]. cbn [allowed] in Ha. destruct Ha as [Ho Ht]. cbn [step].
      destruct o as [n v|n|n|p md zss|k v|sd n v].
      + destruct Ho as [Hn Hc].
        destruct (shadow_upload (estep c) (estep c) _ _ D V A_up B_up xa xb sa sb n v RA RB Hn Hc) as [xa' [xb' [E [Ra Rb]]]].
        rewrite E. cbn [fst snd check_from stores_from].
        destruct (IH xa' xb' _ _ Ht Ra Rb) as [I1 I2]. rewrite I1. split; [reflexivity|exact I2].
      + rewrite (shadow_download (estep c) (estep c) (ERel c ns ea) D
                   (fun a s n R Hn => estep_download c ns ea a s n GA R Hn) xa xb sa n RA Ho).
        cbn [fst snd check_from stores_from]. rewrite out_match_get.
        destruct (IH xa xb sa sb Ht RA RB) as [I1 I2]. rewrite I1. split; [reflexivity|exact I2].
      + rewrite (shadow_stat_both (estep c) (estep c) (ERel c ns ea) (ERel c ns eb) D (tracks_size ea) (tracks_size eb)
                   (fun a s n R Hn => estep_stat c ns ea a s n GA R Hn)
                   (fun b s n R Hn => estep_stat c ns eb b s n GB R Hn) xa xb sa sb n RA RB Ho).
        cbn [fst snd check_from stores_from].
        destruct (IH xa xb sa sb Ht RA RB) as [I1 I2]. rewrite I1. split; [|exact I2].
        rewrite andb_true_r. destruct (sget n sb); [apply out_match_stat|reflexivity].
      + cbn [shadow_step]. pose proof (estep_list_state c xa p md zss) as Hst.
        destruct (estep c xa (List p md zss)) as [x1 r] eqn:Ex. cbn [fst] in Hst. subst x1.
        cbn [fst snd check_from stores_from]. destruct (IH xa xb sa sb Ht RA RB) as [I1 I2]. rewrite I1. split; [|exact I2].
        rewrite andb_true_r. destruct glist eqn:Eg; [|reflexivity]. cbn [negb orb].
        destruct (estep_list c ns ea xa sa p md zss GA RA (Hround eq_refl)) as [r' [E1 E2]]. rewrite Ex in E1.
        inversion E1; subst. exact E2.
      + contradiction.
      + destruct Ho as [_ [Hn Hc]]. destruct sd.
        * destruct (shadow_side_b (estep c) (estep c) _ D V B_up xa xb sb n v RB Hn Hc) as [xb' [E Rb]].
          rewrite E. cbn [fst snd check_from stores_from].
          destruct (IH xa xb' _ _ Ht RA Rb) as [I1 I2]. rewrite I1. split; [reflexivity|exact I2].
        * destruct (shadow_side_a (estep c) (estep c) _ D V A_up xa xb sa n v RA Hn Hc) as [xa' [E Ra]].
          rewrite E. cbn [fst snd check_from stores_from].
          destruct (IH xa' xb _ _ Ht Ra RB) as [I1 I2]. rewrite I1. split; [reflexivity|exact I2].
  Qed.
End Shadowed.

(* ------------------------------------------------------------------ from the boolean guard *)

Lemma guard_e_props : forall c e ops, guard_e c e ops = true ->
  EGuard c e (names_of ops) /\
  (forall v, In v (contents_of ops) -> cont_ok c e v = true) /\ no_raw ops = true.
Proof.
  intros c e ops H. unfold guard_e in H. rewrite !andb_true_iff in H. destruct H as [[[H1 H2] H3] H4].
  split; [|split; [|exact H4]].
  - constructor.
    + intros n Hn. rewrite forallb_forall in H1. apply H1. exact Hn.
    + intros a b Ha Hb. rewrite forallb_forall in H2. specialize (H2 a Ha). rewrite forallb_forall in H2. apply H2. exact Hb.
  - intros v Hv. eapply cont_ok_of_guard; eassumption.
Qed.

Lemma guard_list_props : forall c e ops, guard_list c e ops = true ->
  forall n, In n (names_of ops) -> round_ok c e n = true.
Proof. intros c e ops H n Hn. unfold guard_list in H. rewrite forallb_forall in H. apply H. exact Hn. Qed.

(* the run of every guarded history: the oracle accepts it, and the final state holds the contract's stores *)
Definition holds (c : cfg) (ns : list str) (t : st) (ss : store * store) : Prop :=
  match c_bk c, t with
  | Single e, St1 x => ERel c ns e x (fst ss) /\ snd ss = fst ss
  | Shadow a b, St2 xa xb => ERel c ns a xa (fst ss) /\ ERel c ns b xb (snd ss)
  | _, _ => False
  end.

Theorem run_guarded : forall c ops, guard c ops = true ->
  check_from c (active c) (match c_bk c with Single e => e | Shadow _ b => b end)
             (guard_list c (active c) ops) [] [] ops (snd (run c (init c) ops)) = true /\
  holds c (names_of ops) (fst (run c (init c) ops)) (spec_stores ops).
Proof.
  intros c ops H. unfold guard in H. unfold active, init, holds, spec_stores. destruct (c_bk c) as [e|a b] eqn:Eb.
  - apply andb_true_iff in H. destruct H as [H Hs]. destruct (guard_e_props c e ops H) as [G [Hc Hr]].
    assert (Ha : allowed c (names_of ops) e e false ops).
    { apply allowed_of_bools; [apply incl_refl|intros v Hv; split; apply Hc; exact Hv|exact Hr|intros _; exact Hs]. }
    destruct (run_single c e (names_of ops) (guard_list c e ops) G
                (fun Hg => guard_list_props c e ops Hg) ops (einit e) [] Ha (ERel_init c _ e)) as [I1 [x' [I2 [I3 I4]]]].
    split; [exact I1|]. rewrite I2. auto.
  - apply andb_true_iff in H. destruct H as [Ha Hb].
    destruct (guard_e_props c a ops Ha) as [GA [Hca Hr]]. destruct (guard_e_props c b ops Hb) as [GB [Hcb _]].
    assert (Hal : allowed c (names_of ops) a b true ops).
    { apply allowed_of_bools; [apply incl_refl|intros v Hv; split; [apply Hca|apply Hcb]; exact Hv|exact Hr|discriminate]. }
    destruct (run_shadow c a b (names_of ops) (guard_list c a ops) GA GB
                (fun Hg => guard_list_props c a ops Hg) ops (einit a) (einit b) [] [] Hal
                (ERel_init c _ a) (ERel_init c _ b)) as [I1 [xa [xb [I2 [I3 I4]]]]].
    split; [exact I1|]. rewrite I2. auto.
Qed.

(* the oracle accepts every run of the model: C37_check is the theorem in executable form *)
Theorem check_sound : forall c ops, C37_check c ops (snd (run c (init c) ops)) = true.
Proof.
  intros c ops. unfold C37_check. destruct (guard c ops) eqn:G; [|reflexivity].
  destruct (run_guarded c ops G) as [H _]. unfold active in H. destruct (c_bk c); exact H.
Qed.
