(* C23, part a: the streak specification `status` characterised declaratively (pure lists). *)
From Coq Require Import List NArith ZArith Bool Lia.
From K.Model Require Import C23.
Import ListNotations.
Local Open Scope Z_scope.

Lemma valid_pos c : valid c = true -> 1 <= fails c /\ 1 <= passes c.
Proof. unfold valid. intros H. apply andb_true_iff in H. destruct H as [H1 H2]. lia. Qed.

Lemma streak_nonneg b ros : 0 <= streak b ros.
Proof.
  induction ros as [|o t IH]; cbn [streak]; [lia|].
  destruct (Bool.eqb o b); lia.
Qed.

(* a streak of at least n is a prefix of n copies *)
Lemma streak_ge_iff b n ros :
  Z.of_nat n <= streak b ros <-> exists rest, ros = repeat b n ++ rest.
Proof.
  revert ros. induction n as [|n IH]; intros ros.
  - split; [intros _; exists ros; reflexivity | intros _; apply streak_nonneg].
  - destruct ros as [|o t]; cbn [streak repeat app].
    + split; [lia | intros [rest H]; discriminate].
    + destruct (Bool.eqb o b) eqn:E.
      * apply eqb_prop in E. subst o. split.
        -- intros H. destruct (proj1 (IH t)) as [rest Hr]; [lia|]. exists rest. rewrite Hr. reflexivity.
        -- intros [rest H]. injection H as H. assert (Z.of_nat n <= streak b t) by (apply IH; eauto). lia.
      * split; [lia|]. intros [rest H]. injection H as H1 H2. subst o.
        rewrite eqb_reflx in E. discriminate.
Qed.

(* an opposite outcome ends the streak *)
Lemma streak_app_neg b a r : streak b (a ++ negb b :: r) = streak b a.
Proof.
  induction a as [|o a IH]; cbn [app streak].
  - destruct b; reflexivity.
  - destruct (Bool.eqb o b); [rewrite IH|]; reflexivity.
Qed.

Lemma streak_other o b t : o <> b -> streak b (o :: t) = 0.
Proof. intros H. cbn [streak]. destruct (Bool.eqb o b) eqn:E; [apply eqb_prop in E; congruence | reflexivity]. Qed.

(* l contains n consecutive copies of b *)
Definition window (b : bool) (n : nat) (l : list bool) : Prop :=
  exists u v, l = u ++ repeat b n ++ v.

Lemma window_tail b n o l : window b n l -> window b n (o :: l).
Proof. intros [u [v H]]. exists (o :: u), v. rewrite H. reflexivity. Qed.

Lemma window_cons_inv b n o l :
  window b n (o :: l) -> (exists rest, o :: l = repeat b n ++ rest) \/ window b n l.
Proof.
  intros [u [v H]]. destruct u as [|x u]; cbn [app] in H.
  - left. exists v. exact H.
  - right. injection H as _ H. exists u, v. exact H.
Qed.

Lemma window_nil b n : (0 < n)%nat -> ~ window b n [].
Proof.
  intros Hn [u [v H]]. destruct u; cbn [app] in H; [|discriminate].
  destruct n; [lia|]. cbn [repeat app] in H. discriminate.
Qed.

Lemma window_rev b n l : window b n (rev l) <-> window b n l.
Proof.
  assert (Hrep : forall m, rev (repeat b m) = repeat b m).
  { induction m as [|m IH]; [reflexivity|]. cbn [repeat rev]. rewrite IH.
    clear IH. induction m as [|m IH]; [reflexivity|]. cbn [repeat app]. rewrite IH. reflexivity. }
  assert (Hone : forall l0, window b n l0 -> window b n (rev l0)).
  { intros l0 [u [v H]]. exists (rev v), (rev u). rewrite H. rewrite !rev_app_distr, Hrep, app_assoc. reflexivity. }
  split; intros H; [|apply Hone; exact H].
  rewrite <- (rev_involutive l). apply Hone. exact H.
Qed.

Section Status.
  Variable c : cfg.
  Hypothesis Hv : valid c = true.
  Let F := Z.to_nat (fails c).
  Let P := Z.to_nat (passes c).

  Lemma F_pos : (0 < F)%nat.  Proof. subst F. destruct (valid_pos c Hv). lia. Qed.
  Lemma P_pos : (0 < P)%nat.  Proof. subst P. destruct (valid_pos c Hv). lia. Qed.
  Lemma F_of : Z.of_nat F = fails c.  Proof. subst F. destruct (valid_pos c Hv). lia. Qed.
  Lemma P_of : Z.of_nat P = passes c.  Proof. subst P. destruct (valid_pos c Hv). lia. Qed.

  Lemma repeat_F : repeat false F = false :: repeat false (F - 1).
  Proof. pose proof F_pos. destruct F; [lia|]. cbn [repeat]. replace (S n - 1)%nat with n by lia. reflexivity. Qed.
  Lemma repeat_P : repeat true P = true :: repeat true (P - 1).
  Proof. pose proof P_pos. destruct P; [lia|]. cbn [repeat]. replace (S n - 1)%nat with n by lia. reflexivity. Qed.

  (* the two tests of `status` as list facts *)
  Lemma fail_test o t :
    negb o && (fails c <=? streak false (o :: t)) = true <-> exists rest, o :: t = repeat false F ++ rest.
  Proof.
    rewrite <- streak_ge_iff, F_of. destruct o; cbn [negb andb].
    - rewrite streak_other by discriminate. destruct (valid_pos c Hv). split; [discriminate | lia].
    - rewrite Z.leb_le. reflexivity.
  Qed.
  Lemma pass_test o t :
    o && (passes c <=? streak true (o :: t)) = true <-> exists rest, o :: t = repeat true P ++ rest.
  Proof.
    rewrite <- streak_ge_iff, P_of. destruct o; cbn [andb].
    - rewrite Z.leb_le. reflexivity.
    - rewrite streak_other by discriminate. destruct (valid_pos c Hv). split; [discriminate | lia].
  Qed.

  Lemma status_cons o t :
    status c (o :: t) =
    if negb o && (fails c <=? streak false (o :: t)) then false
    else if o && (passes c <=? streak true (o :: t)) then true else status c t.
  Proof. reflexivity. Qed.

  (* ---- transitions (outcome lists most recent first) *)
  Lemma becomes_unhealthy_iff o t :
    status c t = true ->
    (status c (o :: t) = false <-> exists rest, o :: t = repeat false F ++ rest).
  Proof.
    intros Ht. rewrite status_cons, <- fail_test.
    destruct (negb o && (fails c <=? streak false (o :: t))); [tauto|].
    destruct (o && (passes c <=? streak true (o :: t))); [split; discriminate|].
    rewrite Ht. split; discriminate.
  Qed.

  Lemma becomes_healthy_iff o t :
    status c t = false ->
    (status c (o :: t) = true <-> exists rest, o :: t = repeat true P ++ rest).
  Proof.
    intros Ht. rewrite status_cons, <- pass_test.
    destruct (negb o && (fails c <=? streak false (o :: t))) eqn:E1.
    - split; [discriminate|]. intros E2. apply andb_true_iff in E1, E2. destruct o; cbn in *; intuition discriminate.
    - destruct (o && (passes c <=? streak true (o :: t))); [tauto|]. rewrite Ht. split; discriminate.
  Qed.

  (* the two tests exclude each other on a prefix block followed by the opposite block *)
  Lemma no_pass_prefix rpost rpre :
    ~ window true P rpost ->
    ~ exists rest, rpost ++ repeat false F ++ rpre = repeat true P ++ rest.
  Proof.
    intros Hnw [rest H].
    assert (Hs : Z.of_nat P <= streak true (rpost ++ repeat false F ++ rpre)) by (apply streak_ge_iff; eauto).
    rewrite repeat_F in Hs. cbn [app] in Hs. change false with (negb true) in Hs at 1.
    rewrite streak_app_neg in Hs. apply streak_ge_iff in Hs. destruct Hs as [r Hr].
    apply Hnw. exists [], r. exact Hr.
  Qed.
  Lemma no_fail_prefix rpost rpre :
    ~ window false F rpost ->
    ~ exists rest, rpost ++ repeat true P ++ rpre = repeat false F ++ rest.
  Proof.
    intros Hnw [rest H].
    assert (Hs : Z.of_nat F <= streak false (rpost ++ repeat true P ++ rpre)) by (apply streak_ge_iff; eauto).
    rewrite repeat_P in Hs. cbn [app] in Hs. change true with (negb false) in Hs at 1.
    rewrite streak_app_neg in Hs. apply streak_ge_iff in Hs. destruct Hs as [r Hr].
    apply Hnw. exists [], r. exact Hr.
  Qed.

  (* ---- unhealthy exactly when some Fails consecutive failures are not followed by Passes
     consecutive passes (most recent first: rpost is what came after) *)
  Lemma unhealthy_iff_rev ros :
    status c ros = false <->
    exists rpost rpre, ros = rpost ++ repeat false F ++ rpre /\ ~ window true P rpost.
  Proof.
    induction ros as [|o t IH].
    - cbn [status]. split; [discriminate|]. intros [rpost [rpre [H _]]].
      rewrite repeat_F in H. destruct rpost; discriminate.
    - rewrite status_cons.
      destruct (negb o && (fails c <=? streak false (o :: t))) eqn:E1.
      + split; [intros _|reflexivity]. apply fail_test in E1. destruct E1 as [rest Hr].
        exists [], rest. split; [exact Hr | apply window_nil, P_pos].
      + assert (N1 : ~ exists rest, o :: t = repeat false F ++ rest).
        { intros H. apply fail_test in H. congruence. }
        destruct (o && (passes c <=? streak true (o :: t))) eqn:E2.
        * split; [discriminate|]. intros [rpost [rpre [H Hnw]]]. exfalso.
          apply pass_test in E2. apply (no_pass_prefix rpost rpre Hnw). rewrite <- H. exact E2.
        * assert (N2 : ~ exists rest, o :: t = repeat true P ++ rest).
          { intros H. apply pass_test in H. congruence. }
          rewrite IH. split.
          -- intros [rpost [rpre [H Hnw]]]. exists (o :: rpost), rpre. split; [rewrite H; reflexivity|].
             intros Hw. apply window_cons_inv in Hw. destruct Hw as [[rest Hr]|Hw]; [|tauto].
             apply N2. exists (rest ++ repeat false F ++ rpre). rewrite H.
             change (o :: rpost ++ repeat false F ++ rpre) with ((o :: rpost) ++ repeat false F ++ rpre).
             rewrite Hr, <- app_assoc. reflexivity.
          -- intros [rpost [rpre [H Hnw]]]. destruct rpost as [|x rpost]; cbn [app] in H.
             ++ exfalso. apply N1. exists rpre. exact H.
             ++ injection H as _ H. exists rpost, rpre. split; [exact H|].
                intros Hw. apply Hnw. apply window_tail. exact Hw.
  Qed.

  (* ---- healthy exactly when no Fails consecutive failures ever happened, or the latest such
     block was followed by Passes consecutive passes with no failing block after them *)
  Lemma healthy_iff_rev ros :
    status c ros = true <->
    ~ window false F ros \/
    exists rpost rpre, ros = rpost ++ repeat true P ++ rpre /\ ~ window false F rpost.
  Proof.
    induction ros as [|o t IH].
    - cbn [status]. split; [intros _|reflexivity]. left. apply window_nil, F_pos.
    - rewrite status_cons.
      destruct (negb o && (fails c <=? streak false (o :: t))) eqn:E1.
      + split; [discriminate|]. apply fail_test in E1. intros [Hnw|[rpost [rpre [H Hnw]]]]; exfalso.
        * apply Hnw. destruct E1 as [rest Hr]. exists [], rest. exact Hr.
        * apply (no_fail_prefix rpost rpre Hnw). rewrite <- H. exact E1.
      + assert (N1 : ~ exists rest, o :: t = repeat false F ++ rest).
        { intros H. apply fail_test in H. congruence. }
        destruct (o && (passes c <=? streak true (o :: t))) eqn:E2.
        * split; [intros _|reflexivity]. right. apply pass_test in E2. destruct E2 as [rest Hr].
          exists [], rest. split; [exact Hr | apply window_nil, F_pos].
        * assert (N2 : ~ exists rest, o :: t = repeat true P ++ rest).
          { intros H. apply pass_test in H. congruence. }
          rewrite IH. split.
          -- intros [Hnw|[rpost [rpre [H Hnw]]]].
             ++ left. intros Hw. apply window_cons_inv in Hw. destruct Hw as [Hr|Hw]; tauto.
             ++ right. exists (o :: rpost), rpre. split; [rewrite H; reflexivity|].
                intros Hw. apply window_cons_inv in Hw. destruct Hw as [[rest Hr]|Hw]; [|tauto].
                apply N1. exists (rest ++ repeat true P ++ rpre). rewrite H.
                change (o :: rpost ++ repeat true P ++ rpre) with ((o :: rpost) ++ repeat true P ++ rpre).
                rewrite Hr, <- app_assoc. reflexivity.
          -- intros [Hnw|[rpost [rpre [H Hnw]]]].
             ++ left. intros Hw. apply Hnw, window_tail, Hw.
             ++ destruct rpost as [|x rpost]; cbn [app] in H.
                ** exfalso. apply N2. exists rpre. exact H.
                ** injection H as _ H. right. exists rpost, rpre. split; [exact H|].
                   intros Hw. apply Hnw. apply window_tail. exact Hw.
  Qed.
End Status.

(* ---- the same in chronological order (oldest outcome first) *)
Lemma rev_repeat (b : bool) n : rev (repeat b n) = repeat b n.
Proof.
  induction n as [|n IH]; [reflexivity|]. cbn [repeat rev]. rewrite IH.
  clear IH. induction n as [|n IH]; [reflexivity|]. cbn [repeat app]. rewrite IH. reflexivity.
Qed.

Lemma split_rev {A} (l : list A) a m b :
  rev l = a ++ m ++ b <-> l = rev b ++ rev m ++ rev a.
Proof.
  split; intros H.
  - rewrite <- (rev_involutive l), H, !rev_app_distr, app_assoc. reflexivity.
  - rewrite H, !rev_app_distr, !rev_involutive, app_assoc. reflexivity.
Qed.

Lemma unhealthy_iff c os :
  valid c = true ->
  (status c (rev os) = false <->
   exists pre post, os = pre ++ repeat false (Z.to_nat (fails c)) ++ post /\
                    ~ window true (Z.to_nat (passes c)) post).
Proof.
  intros Hv. rewrite (unhealthy_iff_rev c Hv). split.
  - intros [rpost [rpre [H Hnw]]]. apply split_rev in H. rewrite rev_repeat in H.
    exists (rev rpre), (rev rpost). split; [exact H|]. rewrite window_rev. exact Hnw.
  - intros [pre [post [H Hnw]]]. exists (rev post), (rev pre). split.
    + apply split_rev. rewrite !rev_involutive, rev_repeat. exact H.
    + rewrite window_rev. exact Hnw.
Qed.

Lemma healthy_iff c os :
  valid c = true ->
  (status c (rev os) = true <->
   ~ window false (Z.to_nat (fails c)) os \/
   exists pre post, os = pre ++ repeat true (Z.to_nat (passes c)) ++ post /\
                    ~ window false (Z.to_nat (fails c)) post).
Proof.
  intros Hv. rewrite (healthy_iff_rev c Hv), window_rev. split.
  - intros [H|[rpost [rpre [H Hnw]]]]; [left; exact H|right]. apply split_rev in H. rewrite rev_repeat in H.
    exists (rev rpre), (rev rpost). split; [exact H|]. rewrite window_rev. exact Hnw.
  - intros [H|[pre [post [H Hnw]]]]; [left; exact H|right]. exists (rev post), (rev pre). split.
    + apply split_rev. rewrite !rev_involutive, rev_repeat. exact H.
    + rewrite window_rev. exact Hnw.
Qed.

(* transitions, chronological: os ++ [o] *)
Lemma suffix_rev (b : bool) n (os : list bool) o :
  (exists rest, o :: rev os = repeat b n ++ rest) <-> (exists pre, os ++ [o] = pre ++ repeat b n).
Proof.
  split.
  - intros [rest H]. exists (rev rest).
    rewrite <- (rev_involutive (os ++ [o])), rev_app_distr.
    change (rev [o] ++ rev os) with (o :: rev os). rewrite H.
    rewrite rev_app_distr, rev_repeat. reflexivity.
  - intros [pre H]. exists (rev pre).
    change (o :: rev os) with (rev [o] ++ rev os). rewrite <- rev_app_distr, H, rev_app_distr, rev_repeat. reflexivity.
Qed.

Lemma becomes_unhealthy_chrono c os o :
  valid c = true -> status c (rev os) = true ->
  (status c (rev (os ++ [o])) = false <-> exists pre, os ++ [o] = pre ++ repeat false (Z.to_nat (fails c))).
Proof.
  intros Hv Ht. rewrite rev_app_distr. cbn [rev app].
  rewrite (becomes_unhealthy_iff c Hv o (rev os) Ht). apply suffix_rev.
Qed.

Lemma becomes_healthy_chrono c os o :
  valid c = true -> status c (rev os) = false ->
  (status c (rev (os ++ [o])) = true <-> exists pre, os ++ [o] = pre ++ repeat true (Z.to_nat (passes c))).
Proof.
  intros Hv Ht. rewrite rev_app_distr. cbn [rev app].
  rewrite (becomes_healthy_iff c Hv o (rev os) Ht). apply suffix_rev.
Qed.
