(* C27: the theorems, over every schedule of the lock-region transition system. *)
From Coq Require Import List NArith ZArith Bool Arith Lia Permutation.
From K.Model Require Import C27.
From K.Proof Require Import C27_base C27_group C27_inv.
Import ListNotations.
Local Open Scope N_scope.

Definition reachable (t : N) (s : st) : Prop := exists ls, exec (init t) ls = Some s.

Lemma grp_group_at : forall s g, grp (heap s) g = group_at s g.
Proof. reflexivity. Qed.

Lemma reachable_inv : forall t s, reachable t s -> inv s.
Proof. intros t s [ls H]. eapply inv_reachable; eauto. Qed.

(* ---------- clause: peerList and peerMap index the same entries, ids distinct ---------- *)

Theorem list_map_agree : forall t s g, reachable t s -> (g < length (heap s))%nat ->
  let G := group_at s g in
  NoDup (g_list G) /\ NoDup (map fst (g_map G)) /\
  (forall i p, In (i, p) (g_map G) <-> In p (g_list G) /\ p_id (e_peer (entry_at G p)) = i) /\
  NoDup (map (fun p => p_id (e_peer (entry_at G p))) (g_list G)) /\
  length (g_map G) = length (g_list G).
Proof.
  intros t s g R Hg G. apply reachable_inv in R. destruct (i_groups s R g Hg) as ([IDX _ _] & _).
  rewrite grp_group_at in IDX. fold G in IDX. pose proof IDX as (ND & NK & HM).
  split; [exact ND|]. split; [exact NK|]. split; [exact HM|]. split.
  - exact (idx_ids_nodup _ _ _ IDX).
  - exact (idx_length _ _ _ IDX).
Qed.

(* ---------- the read region ---------- *)

Lemma rd_read_step : forall s tid orc h n g log0 s',
  nth_error (threads s) tid = Some (PRdRead h n g log0) -> cstep s (LRun tid orc) = Some s' ->
  exists res, s' = set_thread s tid (PDone res) /\ nth_error (threads s') tid = Some (PDone res) /\
    let G := group_at s g in
    (((read_count n G <= 0)%Z /\ res = []) \/
     ((0 < read_count n G)%Z /\ valid_idxs orc (Z.to_nat (read_count n G)) (length (g_list G)) = true
      /\ res = read_peers G orc)).
Proof.
  intros s tid orc h n g log0 s' NTH ST. cbn in ST. rewrite NTH in ST. cbn in ST.
  assert (LT : (tid < length (threads s))%nat) by (apply nth_error_Some; congruence).
  destruct (Z.leb (read_count n (group_at s g)) 0) eqn:E.
  - inversion ST; subst s'. exists []. split; [reflexivity|]. split; [cbn; now apply nth_error_set_nth_eq|].
    left. split; [now apply Z.leb_le|reflexivity].
  - destruct (valid_idxs orc _ _) eqn:V; inversion ST; subst s'.
    eexists. split; [reflexivity|]. split; [cbn; now apply nth_error_set_nth_eq|].
    right. split; [now apply Z.leb_gt|auto].
Qed.

Lemma read_count_le : forall n G, (read_count n G <= n)%Z /\ (read_count n G <= Z.of_nat (length (g_list G)))%Z.
Proof. intros. unfold read_count. destruct (Z.ltb_spec (Z.of_nat (length (g_list G))) n); lia. Qed.

(* ---------- clause: at most n peers, all distinct ---------- *)

Theorem at_most_n_distinct : forall t s tid orc h n g log0 s',
  reachable t s -> nth_error (threads s) tid = Some (PRdRead h n g log0) ->
  cstep s (LRun tid orc) = Some s' ->
  exists res, nth_error (threads s') tid = Some (PDone res) /\
    (Z.of_nat (length res) <= Z.max n 0)%Z /\ NoDup (map p_id res).
Proof.
  intros t s tid orc h n g log0 s' R NTH ST.
  destruct (rd_read_step _ _ _ _ _ _ _ _ NTH ST) as (res & _ & NTH' & CASES).
  exists res. split; [exact NTH'|]. cbn in CASES.
  destruct CASES as [[_ ->]|(POS & V & ->)].
  - cbn. split; [lia|constructor].
  - apply valid_idxs_spec in V as (LEN & ND & LT).
    unfold read_peers. rewrite map_length, LEN. split.
    + destruct (read_count_le n (group_at s g)). lia.
    + rewrite map_map.
      apply reachable_inv in R. pose proof (i_threads s R) as FA. rewrite Forall_forall in FA.
      specialize (FA _ (nth_error_In _ _ NTH)). cbn in FA. destruct FA as (Hg & _).
      destruct (i_groups s R g Hg) as ([IDX _ _] & _). rewrite grp_group_at in IDX.
      pose proof IDX as (NDL & _ & _).
      apply NoDup_map_inj_on; [exact ND|].
      intros x y Hx Hy E. apply LT in Hx, Hy.
      rewrite NoDup_nth with (d := 0%nat) in NDL. apply NDL; auto.
      eapply idx_ids_inj; eauto using nth_In.
Qed.

(* ---------- clause: every returned peer is that peer's most recent announcement ---------- *)

(* The read is linearisable: there is a moment between the reader's lookup (when the log was
   log0) and its return at which every returned peer was the most recent announcement of that
   peer for the torrent.  When the group is still linked that moment is the read itself. *)
Theorem reflects_latest : forall t s tid orc h n g log0 s',
  reachable t s -> nth_error (threads s) tid = Some (PRdRead h n g log0) ->
  cstep s (LRun tid orc) = Some s' ->
  exists res mid, nth_error (threads s') tid = Some (PDone res) /\
    suffix log0 mid /\ suffix mid (log s) /\
    (g_deleted (group_at s g) = false -> mid = log s) /\
    forall r, In r res -> exists a, last_ann mid h (p_id r) = Some a /\ a_peer a = r.
Proof.
  intros t s tid orc h n g log0 s' R NTH ST.
  destruct (rd_read_step _ _ _ _ _ _ _ _ NTH ST) as (res & _ & NTH' & CASES).
  apply reachable_inv in R. pose proof (i_threads s R) as FA. rewrite Forall_forall in FA.
  specialize (FA _ (nth_error_In _ _ NTH)). cbn in FA. destruct FA as (Hg & HH & SUF & DEAD).
  pose proof (i_groups s R g Hg) as (WF & _ & GH). rewrite !grp_group_at in *.
  set (G := group_at s g) in *.
  assert (RES : forall r, In r res -> exists p, In p (g_list G) /\ r = e_peer (entry_at G p)).
  { cbn in CASES. destruct CASES as [[_ ->]|(POS & V & ->)]; [cbn; tauto|].
    apply valid_idxs_spec in V as (_ & _ & LT). intros r Hr. unfold read_peers in Hr.
    apply in_map_iff in Hr as [i [E Hi]]. exists (nth i (g_list G) 0%nat).
    split; [apply nth_In; apply LT; exact Hi|symmetry; exact E]. }
  exists res. destruct (g_deleted G) eqn:ED.
  - destruct GH as (S & A & _). exists (g_deadlog G).
    split; [exact NTH'|]. split; [auto|]. split; [exact S|]. split; [discriminate|].
    intros r Hr. destruct (RES r Hr) as (p & Hp & ->). destruct (A p Hp) as (a & H1 & H2).
    exists a. rewrite <- HH. auto.
  - destruct GH as (A & _ & _). exists (log s).
    split; [exact NTH'|]. split; [exact SUF|]. split; [apply suffix_refl|]. split; [reflexivity|].
    intros r Hr. destruct (RES r Hr) as (p & Hp & ->). destruct (A p Hp) as (a & H1 & H2 & _).
    exists a. rewrite <- HH. auto.
Qed.

(* the reader's log0 is the log at its lookup region (local.go:86-88) *)
Theorem lookup_captures_log : forall s tid orc h n s',
  nth_error (threads s) tid = Some (PRdLookup h n) -> cstep s (LRun tid orc) = Some s' ->
  nth_error (threads s') tid = Some (PDone []) \/
  exists g, assoc h (gmap s) = Some g /\ nth_error (threads s') tid = Some (PRdRead h n g (log s)).
Proof.
  intros s tid orc h n s' NTH ST. cbn in ST. rewrite NTH in ST. cbn in ST.
  assert (LT : (tid < length (threads s))%nat) by (apply nth_error_Some; congruence).
  destruct (smu_free s); [|discriminate].
  destruct (assoc h (gmap s)) as [g|]; inversion ST; subst s'; cbn.
  - right. exists g. split; [reflexivity|]. now apply nth_error_set_nth_eq.
  - left. now apply nth_error_set_nth_eq.
Qed.

(* ---------- clause: an announcement is not forgotten while it is fresh ---------- *)

(* in every reachable state the most recent announcement of a peer for a torrent, while less
   than TTL old, is listed in the torrent's linked group, with the announced data *)
Theorem never_forget_fresh : forall t s h i a, reachable t s ->
  last_ann (log s) h i = Some a -> now s < a_time a + ttl s ->
  exists g p, assoc h (gmap s) = Some g /\ In p (g_list (group_at s g)) /\
              e_peer (entry_at (group_at s g) p) = a_peer a.
Proof.
  intros t s h i a R L F. apply reachable_inv in R.
  destruct (assoc h (gmap s)) as [g|] eqn:AS.
  - pose proof (assoc_in _ _ _ AS) as IN. destruct (i_gmap s R h g IN) as (Hg & HH & ED).
    pose proof (i_groups s R g Hg) as (_ & _ & GH). rewrite ED in GH. destruct GH as (_ & _ & C).
    rewrite HH in C. destruct (C i a L F) as (p & Hp & HP). exists g, p. auto.
  - exfalso. apply last_ann_some in L as (IN & HH & _).
    pose proof (i_nolive s R h AS a IN HH). lia.
Qed.

(* ... and a reader that asks for at least as many peers as are listed returns it, provided
   the announcement was made before the reader's lookup *)
Theorem read_returns_all_fresh : forall t s tid orc h n g log0 s' i a,
  reachable t s -> nth_error (threads s) tid = Some (PRdRead h n g log0) ->
  cstep s (LRun tid orc) = Some s' ->
  last_ann (log s) h i = Some a -> In a log0 -> now s < a_time a + ttl s ->
  (Z.of_nat (length (g_list (group_at s g))) <= n)%Z ->
  exists res, nth_error (threads s') tid = Some (PDone res) /\ In (a_peer a) res.
Proof.
  intros t s tid orc h n g log0 s' i a R NTH ST L IN0 F BIG.
  destruct (rd_read_step _ _ _ _ _ _ _ _ NTH ST) as (res & _ & NTH' & CASES).
  exists res. split; [exact NTH'|].
  apply reachable_inv in R. pose proof (i_threads s R) as FA. rewrite Forall_forall in FA.
  specialize (FA _ (nth_error_In _ _ NTH)). cbn in FA. destruct FA as (Hg & HH & SUF & DEAD).
  pose proof (i_groups s R g Hg) as (WF & _ & GH). rewrite !grp_group_at in *.
  set (G := group_at s g) in *.
  destruct (g_deleted G) eqn:ED.
  - exfalso. destruct GH as (_ & _ & D). specialize (DEAD eq_refl).
    pose proof (suffix_in _ _ _ DEAD IN0) as IND. apply last_ann_some in L as (_ & HA & _).
    specialize (D a IND). rewrite HH in D. specialize (D HA). lia.
  - destruct GH as (_ & _ & C). rewrite HH in C. destruct (C i a L F) as (p & Hp & HP).
    destruct (In_nth _ _ 0%nat Hp) as (j & Hj & EJ).
    assert (RC : read_count n G = Z.of_nat (length (g_list G))).
    { unfold read_count. destruct (Z.ltb_spec (Z.of_nat (length (g_list G))) n); lia. }
    cbn in CASES. destruct CASES as [[LE _]|(POS & V & ->)]; [lia|].
    rewrite RC, Nat2Z.id in V. apply valid_idxs_spec in V as (LEN & ND & LT).
    assert (INC : incl (seq 0 (length (g_list G))) orc).
    { apply NoDup_length_incl; [exact ND|rewrite seq_length; lia|].
      intros x Hx. apply in_seq. apply LT in Hx. lia. }
    assert (Hjo : In j orc) by (apply INC, in_seq; lia).
    unfold read_peers. rewrite <- HP, <- EJ.
    apply (in_map (fun i0 => e_peer (entry_at G (nth i0 (g_list G) 0%nat)))). exact Hjo.
Qed.

(* ---------- clause: forgotten only after the TTL has passed ---------- *)

(* No step of any thread removes a listed entry whose expiry still lies ahead when the step
   ends, nor retires its group; a renewal can only move the expiry forward.  In particular
   the remove region of the entry cleanup keeps an entry that was renewed after the scan. *)
Definition survives (s s' : st) : Prop :=
  forall g p, (g < length (heap s))%nat -> In p (g_list (grp (heap s) g)) ->
    now s' < e_exp (entry_at (grp (heap s) g) p) ->
    In p (g_list (grp (heap s') g)) /\
    g_deleted (grp (heap s') g) = g_deleted (grp (heap s) g) /\
    e_exp (entry_at (grp (heap s) g) p) <= e_exp (entry_at (grp (heap s') g) p).

Lemma survives_same : forall s s', heap s' = heap s -> survives s s'.
Proof. intros s s' E g p Hg Hp F. rewrite E. split; [exact Hp|]. split; [reflexivity|lia]. Qed.

Lemma survives_replace : forall s s' g0 G', inv s -> now s' = now s ->
  heap s' = set_nth g0 G' (heap s) -> (g0 < length (heap s))%nat ->
  (forall p, In p (g_list (grp (heap s) g0)) -> now s < e_exp (entry_at (grp (heap s) g0) p) ->
     In p (g_list G') /\ g_deleted G' = g_deleted (grp (heap s) g0) /\
     e_exp (entry_at (grp (heap s) g0) p) <= e_exp (entry_at G' p)) ->
  survives s s'.
Proof.
  intros s s' g0 G' I NOW E Hg0 H g p Hg Hp F. rewrite E. rewrite NOW in F.
  destruct (Nat.eq_dec g0 g) as [<-|Hne].
  - rewrite grp_set_eq by exact Hg0. apply H; auto.
  - rewrite grp_set_neq by exact Hne. split; [exact Hp|]. split; [reflexivity|lia].
Qed.

Lemma survives_run_thread : forall s tid orc p s', inv s -> nth_error (threads s) tid = Some p ->
  run_thread s tid orc p = Some s' -> survives s s'.
Proof.
  intros s tid orc p s' I NTH RUN.
  assert (PC : pc_ok (heap s) (log s) p).
  { pose proof (i_threads s I) as FA. rewrite Forall_forall in FA. apply FA. eapply nth_error_In; eauto. }
  destruct p as [h pr|h pr g|h n|h n g log0| |todo|g ex todo|res]; cbn in RUN.
  - destruct (smu_free s); [|discriminate].
    destruct (assoc h (gmap s)); inversion RUN; subst s'; [now apply survives_same|].
    intros g p Hg Hp F. cbn. rewrite grp_app_old by exact Hg. split; [exact Hp|]. split; [reflexivity|lia].
  - destruct (g_deleted (group_at s g)) eqn:ED; inversion RUN; subst s'; [now apply survives_same|].
    destruct PC as [Hg HH].
    eapply survives_replace with (g0 := g); [exact I|reflexivity|reflexivity|exact Hg|].
    intros p Hp F. pose proof (i_groups s I g Hg) as (WF & LAST & _).
    destruct (update_fields (now s) (ttl s) (grp (heap s) g) pr) as (_ & FD & _ & _).
    destruct (update_char (now s) (ttl s) (grp (heap s) g) pr WF) as (ptr & PIN & PENT & KEEP & OTHER & _).
    fold (group_at s g) in *. rewrite <- !grp_group_at in *.
    split; [apply KEEP; exact Hp|]. split; [exact FD|].
    destruct (Nat.eq_dec p ptr) as [->|Hne].
    + rewrite PENT. cbn. pose proof (w_last _ WF ptr Hp). lia.
    + destruct (OTHER p (KEEP p Hp) Hne) as (_ & HE & _). rewrite HE. lia.
  - destruct (smu_free s); [|discriminate].
    destruct (assoc h (gmap s)); inversion RUN; subst s'; now apply survives_same.
  - destruct (Z.leb (read_count n (group_at s g)) 0).
    + inversion RUN; subst s'. now apply survives_same.
    + destruct (valid_idxs orc _ _); inversion RUN; subst s'. now apply survives_same.
  - destruct (smu_free s); [|discriminate].
    destruct (is_perm orc (map snd (gmap s))); inversion RUN; subst s'. now apply survives_same.
  - destruct todo as [|g todo]; [inversion RUN; subst s'; now apply survives_same|].
    destruct (scan (now s) (group_at s g)); inversion RUN; subst s'; now apply survives_same.
  - inversion RUN; subst s'. destruct PC as [Hg _].
    eapply survives_replace with (g0 := g); [exact I|reflexivity|reflexivity|exact Hg|].
    intros p Hp F. pose proof (i_groups s I g Hg) as (WF & _ & _).
    destruct (remove_fields (now s) (grp (heap s) g) ex) as (_ & FD & _ & _ & _).
    destruct (remove_char (now s) (grp (heap s) g) ex WF) as (_ & _ & ENT & EXP).
    rewrite <- !grp_group_at in *.
    split; [|split; [exact FD|rewrite ENT; lia]].
    destruct (in_dec Nat.eq_dec p (g_list (remove_expired (now s) (grp (heap s) g) ex))) as [Hin|Hnin]; [exact Hin|].
    specialize (EXP p Hp Hnin). lia.
  - discriminate.
Qed.

Theorem fresh_survives_step : forall t s l s', reachable t s -> cstep s l = Some s' -> survives s s'.
Proof.
  intros t s l s' R ST. apply reachable_inv in R. destruct l as [dt|c|tid orc|order|]; cbn in ST.
  - inversion ST; subst. now apply survives_same.
  - inversion ST; subst. now apply survives_same.
  - destruct (nth_error (threads s) tid) as [p|] eqn:NTH; [|discriminate].
    eapply survives_run_thread; eauto.
  - destruct (smu_free s); [|discriminate].
    destruct (is_perm order _); inversion ST; subst. now apply survives_same.
  - destruct (smu s) as [c|] eqn:SM; inversion ST; subst.
    pose proof (i_cg s R) as CG. rewrite SM in CG.
    destruct c as [[|[h g] todo]|h g todo]; cbn.
    + now apply survives_same.
    + destruct (N.ltb (now s) (g_last (group_at s g))); now apply survives_same.
    + destruct (N.ltb (g_last (group_at s g)) (now s)) eqn:E; [|now apply survives_same].
      apply N.ltb_lt in E. destruct CG as (INM & _ & _). destruct (i_gmap s R h g INM) as (Hg & _ & _).
      eapply survives_replace with (g0 := g); [exact R|reflexivity|reflexivity|exact Hg|].
      intros p Hp F. exfalso. pose proof (i_groups s R g Hg) as (WF & _ & _).
      pose proof (w_last _ WF p Hp). rewrite <- grp_group_at in E. lia.
Qed.
