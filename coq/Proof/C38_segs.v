(* C38: facts about splitting a path at '/' and about the validity predicates. *)
From Coq Require Import List NArith Arith Bool Lia.
From K.Model Require Import C38.
Import ListNotations.
Local Open Scope N_scope.

Definition nosl (u : list N) : bool := forallb (fun c => negb (N.eqb c SL)) u.
Definition nonl (u : list N) : bool := forallb (fun c => negb (N.eqb c NL)) u.

Lemma segs_nonnil s : segs s <> [].
Proof. destruct s as [|c t]; cbn; [discriminate|]. destruct (N.eqb c SL); [discriminate|]. destruct (segs t); discriminate. Qed.

Lemma segs_cons_sl t : segs (SL :: t) = [] :: segs t.
Proof. reflexivity. Qed.

Lemma segs_app_sl a b : segs (a ++ SL :: b) = segs a ++ segs b.
Proof.
  induction a as [|c a IH]; [reflexivity|]. cbn [app segs]. rewrite IH.
  destruct (N.eqb c SL); [reflexivity|].
  pose proof (segs_nonnil a) as Hn. destruct (segs a) as [|h r]; [congruence|reflexivity].
Qed.

Lemma segs_nosl u : nosl u = true -> segs u = [u].
Proof.
  induction u as [|c u IH]; intros H; [reflexivity|]. cbn in H. apply andb_true_iff in H as [Hc Hu].
  cbn [segs]. apply negb_true_iff in Hc. rewrite Hc, (IH Hu). reflexivity.
Qed.

Lemma cls_nosl cs u : forallb (cs_in cs) u = true -> cs_in cs SL = false -> nosl u = true.
Proof.
  intros H Hs. unfold nosl. rewrite forallb_forall in *. intros c Hc. specialize (H c Hc).
  apply negb_true_iff. destruct (N.eqb c SL) eqn:E; [|reflexivity]. apply N.eqb_eq in E; subst c. congruence.
Qed.

Lemma join_segs s : join (segs s) = s.
Proof.
  induction s as [|c t IH]; [reflexivity|]. cbn [segs].
  pose proof (segs_nonnil t) as Hn. destruct (N.eqb c SL) eqn:E.
  - apply N.eqb_eq in E; subst c. cbn [join]. destruct (segs t) eqn:Es; [congruence|]. rewrite IH. reflexivity.
  - destruct (segs t) as [|h r] eqn:Es; [congruence|]. cbn [join] in *. destruct r; cbn; rewrite <- IH; reflexivity.
Qed.
Lemma segs_inj a b : segs a = segs b -> a = b.
Proof. intros H. rewrite <- (join_segs a), <- (join_segs b), H. reflexivity. Qed.

Lemma segs_all_nosl s : forallb nosl (segs s) = true.
Proof.
  induction s as [|c t IH]; [reflexivity|]. cbn [segs]. destruct (N.eqb c SL) eqn:E.
  - cbn. exact IH.
  - pose proof (segs_nonnil t) as Hn. destruct (segs t) as [|h r]; [congruence|].
    cbn in *. rewrite E. exact IH.
Qed.

(* forallb helpers *)
Lemma forallb_imp {A} (f g : A -> bool) l : (forall x, f x = true -> g x = true) -> forallb f l = true -> forallb g l = true.
Proof. intros Hi H. rewrite forallb_forall in *. auto. Qed.

Lemma nonl_app a b : nonl (a ++ b) = nonl a && nonl b.
Proof. unfold nonl. apply forallb_app. Qed.
Lemma nosl_app a b : nosl (a ++ b) = nosl a && nosl b.
Proof. unfold nosl. apply forallb_app. Qed.

(* a string whose segments have no newline has no newline *)
Lemma nonl_of_segs s : forallb nonl (segs s) = true -> nonl s = true.
Proof.
  induction s as [|c t IH]; intros H; [reflexivity|]. cbn [segs] in H. destruct (N.eqb c SL) eqn:E.
  - cbn in H |- *. apply N.eqb_eq in E; subst c. cbn. auto.
  - pose proof (segs_nonnil t) as Hn. destruct (segs t) as [|h r]; [congruence|].
    cbn in H |- *. apply andb_true_iff in H as [H1 H2]. apply andb_true_iff in H1 as [H0 H1].
    rewrite H0. apply IH. cbn. unfold nonl at 1. rewrite H1, H2. reflexivity.
Qed.

Lemma seg_ok_nonl s : seg_ok s = true -> nonl s = true.
Proof. destruct s as [|c t]; [discriminate|]. unfold seg_ok. intros H. apply andb_true_iff in H as [_ H]. exact H. Qed.

Lemma repo_ok_nonl r : repo_ok r = true -> nonl r = true.
Proof. intros H. apply nonl_of_segs. eapply forallb_imp; [|exact H]. apply seg_ok_nonl. Qed.
Lemma repo_ok_nonnil r : repo_ok r = true -> r <> [].
Proof. intros H ->. discriminate. Qed.
Lemma repo_ok_in r x : repo_ok r = true -> In x (segs r) -> seg_ok x = true.
Proof. unfold repo_ok. rewrite forallb_forall. auto. Qed.

(* character classes *)
Ltac cls_tac := rewrite ?xorb_false_l; cbn [existsb fst snd]; intros;
  repeat rewrite ?orb_true_iff, ?andb_true_iff, ?orb_false_r, ?N.leb_le, ?N.eqb_eq in *; lia.
Lemma lower_hex_c09az c : lower_hex c = true -> cs_in c09az c = true.
Proof. unfold lower_hex, c09az, cs_in, in_ranges. cls_tac. Qed.
Lemma lower_hex_is_hex c : lower_hex c = true -> is_hex c = true.
Proof. unfold lower_hex, is_hex. intros H. rewrite H. reflexivity. Qed.

Lemma valid_hex_len h : valid_hex h = true -> length h = 64%nat.
Proof. unfold valid_hex. intros H. apply andb_true_iff in H as [H _]. apply Nat.eqb_eq in H. exact H. Qed.
Lemma valid_hex_cls h : valid_hex h = true -> forallb (cs_in c09az) h = true.
Proof. unfold valid_hex. intros H. apply andb_true_iff in H as [_ H]. eapply forallb_imp; [|exact H]. apply lower_hex_c09az. Qed.
Lemma valid_hex_sha h : valid_hex h = true -> valid_sha256_hex h = true.
Proof.
  unfold valid_hex, valid_sha256_hex. intros H. apply andb_true_iff in H as [H1 H2]. rewrite H1. cbn.
  eapply forallb_imp; [|exact H2]. apply lower_hex_is_hex.
Qed.
Lemma valid_hex_nonnil h : valid_hex h = true -> h <> [].
Proof. intros H ->. discriminate. Qed.
Lemma valid_hex_nosl h : valid_hex h = true -> nosl h = true.
Proof. intros H. eapply cls_nosl; [apply valid_hex_cls; exact H|reflexivity]. Qed.

Definition cs_alnum := Cs false [(97, 122); (65, 90); (48, 57)].
Definition cs_digit := Cs false [(48, 57)].
Definition cs_noslash := Cs true [(47, 47)].
Lemma alnum_cls c : alnum c = true -> cs_in cs_alnum c = true.
Proof. unfold alnum, lower_alnum, cs_alnum, cs_in, in_ranges. cls_tac. Qed.
Lemma digit_cls c : digit c = true -> cs_in cs_digit c = true.
Proof. unfold digit, cs_digit, cs_in, in_ranges. cls_tac. Qed.
Lemma nonempty_nonnil {A} (l : list A) : nonempty l = true -> l <> [].
Proof. destruct l; [discriminate|discriminate]. Qed.

Lemma valid_algo_cls a : valid_algo a = true -> a <> [] /\ forallb (cs_in cs_alnum) a = true.
Proof.
  unfold valid_algo. intros H. apply andb_true_iff in H as [H1 H2]. split; [apply nonempty_nonnil; auto|].
  eapply forallb_imp; [|exact H2]. apply alnum_cls.
Qed.
Lemma valid_offset_cls o : valid_offset o = true -> o <> [] /\ forallb (cs_in cs_digit) o = true.
Proof.
  unfold valid_offset. intros H. apply andb_true_iff in H as [H1 H2]. split; [apply nonempty_nonnil; auto|].
  eapply forallb_imp; [|exact H2]. apply digit_cls.
Qed.
Lemma valid_algo_nosl a : valid_algo a = true -> nosl a = true.
Proof. intros H. eapply cls_nosl; [apply valid_algo_cls; exact H|reflexivity]. Qed.
Lemma valid_offset_nosl a : valid_offset a = true -> nosl a = true.
Proof. intros H. eapply cls_nosl; [apply valid_offset_cls; exact H|reflexivity]. Qed.

Lemma tag_ok_facts t : tag_ok t = true -> t <> [] /\ nosl t = true /\ nonl t = true /\ forallb (cs_in cs_noslash) t = true.
Proof.
  unfold tag_ok. intros H. apply andb_true_iff in H as [H1 H2]. split; [apply nonempty_nonnil; auto|].
  repeat split; (eapply forallb_imp; [|exact H2]); intros x Hx; apply andb_true_iff in Hx as [Ha Hb]; auto.
  unfold cs_noslash, cs_in, in_ranges. cbn. apply negb_true_iff in Ha. unfold SL in Ha.
  destruct (N.leb 47 x) eqn:E1, (N.leb x 47) eqn:E2; cbn; auto.
  apply N.leb_le in E1, E2. assert (x = 47) by lia. subst x. discriminate.
Qed.
Lemma uuid_ok_facts u : uuid_ok u = true -> u <> [] /\ nosl u = true /\ forallb (cs_in cs_noslash) u = true /\ hd 0 u <> 95.
Proof.
  destruct u as [|c t]; [discriminate|]. unfold uuid_ok. intros H. apply andb_true_iff in H as [H1 H2].
  split; [discriminate|]. split; [exact H2|]. split.
  - eapply forallb_imp; [|exact H2]. intros x Ha. unfold cs_noslash, cs_in, in_ranges. cbn.
    apply negb_true_iff in Ha. unfold SL in Ha.
    destruct (N.leb 47 x) eqn:E1, (N.leb x 47) eqn:E2; cbn; auto.
    apply N.leb_le in E1, E2. assert (x = 47) by lia. subst x. discriminate.
  - cbn. apply negb_true_iff in H1. apply N.eqb_neq in H1. exact H1.
Qed.
Lemma seg_ok_hd s : seg_ok s = true -> hd 0 s <> 95.
Proof. destruct s as [|c t]; [discriminate|]. unfold seg_ok. intros H. apply andb_true_iff in H as [H _]. cbn. apply negb_true_iff in H. apply N.eqb_neq in H. exact H. Qed.

(* the documented grammar implies what the theorems assume *)
Lemma lower_alnum_not_us c : lower_alnum c = true -> N.eqb c 95 = false.
Proof.
  unfold lower_alnum. intros H. apply N.eqb_neq. intros ->. discriminate.
Qed.
Lemma repo_char_nonl c : repo_char c = true -> negb (N.eqb c NL) = true.
Proof. intros H. apply negb_true_iff. apply N.eqb_neq. intros ->. discriminate. Qed.
Lemma comp_ok_seg_ok s : comp_ok s = true -> seg_ok s = true.
Proof.
  unfold comp_ok, seg_ok. destruct s as [|c t]; [intros H; apply andb_true_iff in H as [H _]; apply andb_true_iff in H as [_ H]; discriminate|].
  intros H. apply andb_true_iff in H as [H _]. apply andb_true_iff in H as [H1 H2].
  rewrite (lower_alnum_not_us _ H2). cbn [negb andb].
  eapply forallb_imp; [|exact H1]. apply repo_char_nonl.
Qed.
Lemma valid_repo_ok r : valid_repo r = true -> repo_ok r = true.
Proof. unfold valid_repo, repo_ok. apply forallb_imp. apply comp_ok_seg_ok. Qed.
Lemma valid_tag_ok t : valid_tag t = true -> tag_ok t = true.
Proof.
  unfold valid_tag, tag_ok. intros H. apply andb_true_iff in H as [H1 H2].
  destruct t as [|c t]; [discriminate|]. cbn [nonempty andb].
  eapply forallb_imp; [|exact H1]. intros x Hx.
  apply andb_true_iff; split; apply negb_true_iff; apply N.eqb_neq; intros ->; discriminate.
Qed.
Lemma valid_uuid_ok u : valid_uuid u = true -> uuid_ok u = true.
Proof.
  unfold valid_uuid, uuid_ok. intros H. apply andb_true_iff in H as [H1 H2].
  destruct u as [|c t]; [discriminate|].
  assert (Hc : (alnum c || N.eqb c 45) = true) by (cbn in H2; apply andb_true_iff in H2 as [H2 _]; exact H2).
  apply andb_true_iff; split.
  - apply negb_true_iff. apply N.eqb_neq. intros ->. discriminate.
  - eapply forallb_imp; [|exact H2]. intros x Hx. apply negb_true_iff. apply N.eqb_neq. intros ->. discriminate.
Qed.
Lemma pk_valid_ok k : pk_valid k = true -> pk_ok k = true.
Proof.
  destruct k; cbn [pk_valid pk_ok]; intros H; rewrite ?andb_true_iff in *;
    intuition auto using valid_repo_ok, valid_tag_ok, valid_uuid_ok.
Qed.

Lemma cls_nonl cs u : forallb (cs_in cs) u = true -> cs_in cs NL = false -> nonl u = true.
Proof.
  intros H Hs. unfold nonl. rewrite forallb_forall in *. intros c Hc. specialize (H c Hc).
  apply negb_true_iff. destruct (N.eqb c NL) eqn:E; [|reflexivity]. apply N.eqb_eq in E; subst c. congruence.
Qed.
Lemma valid_hex_nonl h : valid_hex h = true -> nonl h = true.
Proof. intros H. eapply cls_nonl; [apply valid_hex_cls; exact H|reflexivity]. Qed.
Lemma nonl_cons c t : nonl (c :: t) = negb (N.eqb c NL) && nonl t.
Proof. reflexivity. Qed.
