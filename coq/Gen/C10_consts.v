(* GENERATED on every run by harness/tools/genconsts from the repository's current source. Do not edit. *)
From Coq Require Import List NArith ZArith.
Import ListNotations.

(* lib/store/cleanup.go: isDownloadedByConsumer, comparison #0 (>), operand 1 *)
Definition cleanup_consumer_gap_ns : Z := 1000000000%Z.
(* lib/store/cleanup.go: forSureInAgent, comparison #0 (>), operand 1 *)
Definition cleanup_agent_gap_ns : Z := 2700000000000%Z.
(* lib/store/cleanup.go: assignment to .Interval in CleanupConfig.applyDefaults *)
Definition cleanup_default_interval_ns : Z := 1800000000000%Z.
(* lib/store/cleanup.go: assignment to .TTI in CleanupConfig.applyDefaults *)
Definition cleanup_default_tti_ns : Z := 21600000000000%Z.
(* lib/store/cleanup.go: assignment to .AggressiveTTL in CleanupConfig.applyDefaults *)
Definition cleanup_default_aggressive_ttl_ns : Z := 3600000000000%Z.
(* lib/store/cleanup.go: cleanupManager.readyForDeletion, comparison #0 (>), operand 1 *)
Definition cleanup_ttl_guard : Z := 0%Z.
(* lib/store/base/file_map.go: field timeResolution in NewLRUFileMap *)
Definition filemap_lat_resolution_ns : Z := 300000000000%Z.
(* lib/store/config.go: assignment to .Capacity in CAStoreConfig.applyDefaults *)
Definition castore_default_capacity : Z := 1048576%Z.
