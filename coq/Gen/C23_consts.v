(* GENERATED on every run by harness/tools/genconsts from the repository's current source. Do not edit. *)
From Coq Require Import List NArith ZArith.
Import ListNotations.

(* lib/healthcheck/config.go: assignment to .Fails in FilterConfig.applyDefaults *)
Definition default_fails : Z := 3%Z.
(* lib/healthcheck/config.go: assignment to .Passes in FilterConfig.applyDefaults *)
Definition default_passes : Z := 2%Z.
