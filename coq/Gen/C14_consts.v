(* GENERATED on every run by harness/tools/genconsts from the repository's current source. Do not edit. *)
From Coq Require Import List NArith ZArith.
Import ListNotations.

(* lib/torrent/scheduler/conn/conn.go: maxMessageSize *)
Definition conn_max_message_size : Z := 32768%Z.
