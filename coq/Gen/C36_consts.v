(* GENERATED on every run by harness/tools/genconsts from the repository's current source. Do not edit. *)
From Coq Require Import List NArith ZArith.
Import ListNotations.

(* lib/backend/namepath/pather.go: DockerTagPather.NameFromBlobPath, string literal #0 = "/(.+)/_manifests/tags/(.+)/current/link" *)
Definition tag_re_lit : list N := [47; 40; 46; 43; 41; 47; 95; 109; 97; 110; 105; 102; 101; 115; 116; 115; 47; 116; 97; 103; 115; 47; 40; 46; 43; 41; 47; 99; 117; 114; 114; 101; 110; 116; 47; 108; 105; 110; 107]%N.
(* lib/backend/namepath/pather.go: ShardedDockerBlobPather.NameFromBlobPath, string literal #0 = "/sha256/../(.+)/data" *)
Definition blob_re_lit : list N := [47; 115; 104; 97; 50; 53; 54; 47; 46; 46; 47; 40; 46; 43; 41; 47; 100; 97; 116; 97]%N.
(* lib/backend/namepath/pather.go: DockerTagPather.BasePath, string literal #0 = "docker/registry/v2/repositories" *)
Definition tag_base_lit : list N := [100; 111; 99; 107; 101; 114; 47; 114; 101; 103; 105; 115; 116; 114; 121; 47; 118; 50; 47; 114; 101; 112; 111; 115; 105; 116; 111; 114; 105; 101; 115]%N.
(* lib/backend/namepath/pather.go: ShardedDockerBlobPather.BasePath, string literal #0 = "docker/registry/v2/blobs" *)
Definition blob_base_lit : list N := [100; 111; 99; 107; 101; 114; 47; 114; 101; 103; 105; 115; 116; 114; 121; 47; 118; 50; 47; 98; 108; 111; 98; 115]%N.
(* lib/backend/namepath/pather.go: DockerTagPather.BlobPath, string literal #0 = ":" *)
Definition tag_sep_lit : list N := [58]%N.
(* lib/backend/namepath/pather.go: DockerTagPather.BlobPath, call #0 of Join, argument 2 = "_manifests/tags" *)
Definition tag_mid_lit : list N := [95; 109; 97; 110; 105; 102; 101; 115; 116; 115; 47; 116; 97; 103; 115]%N.
(* lib/backend/namepath/pather.go: DockerTagPather.BlobPath, call #0 of Join, argument 4 = "current/link" *)
Definition tag_end_lit : list N := [99; 117; 114; 114; 101; 110; 116; 47; 108; 105; 110; 107]%N.
(* lib/backend/namepath/pather.go: ShardedDockerBlobPather.BlobPath, call #0 of Join, argument 1 = "sha256" *)
Definition blob_alg_lit : list N := [115; 104; 97; 50; 53; 54]%N.
(* lib/backend/namepath/pather.go: ShardedDockerBlobPather.BlobPath, call #0 of Join, argument 4 = "data" *)
Definition blob_end_lit : list N := [100; 97; 116; 97]%N.
(* lib/backend/namepath/pather.go: DockerTagPather.NameFromBlobPath, call #0 of Sprintf, argument 0 = "%s:%s" *)
Definition tag_fmt_lit : list N := [37; 115; 58; 37; 115]%N.
