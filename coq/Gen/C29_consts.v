(* GENERATED on every run by harness/tools/genconsts from the repository's current source. Do not edit. *)
From Coq Require Import List NArith ZArith.
Import ListNotations.

(* utils/dedup/limiter.go: TaskGCInterval *)
Definition task_gc_interval : Z := 60000000000%Z.
(* utils/dedup/request_cache.go: assignment to .NotFoundTTL in RequestCacheConfig.applyDefaults *)
Definition rc_default_not_found_ttl : Z := 15000000000%Z.
(* utils/dedup/request_cache.go: assignment to .ErrorTTL in RequestCacheConfig.applyDefaults *)
Definition rc_default_error_ttl : Z := 15000000000%Z.
(* utils/dedup/request_cache.go: assignment to .CleanupInterval in RequestCacheConfig.applyDefaults *)
Definition rc_default_cleanup_interval : Z := 5000000000%Z.
(* utils/dedup/request_cache.go: assignment to .NumWorkers in RequestCacheConfig.applyDefaults *)
Definition rc_default_num_workers : Z := 10000%Z.
(* utils/dedup/request_cache.go: assignment to .BusyTimeout in RequestCacheConfig.applyDefaults *)
Definition rc_default_busy_timeout : Z := 5000000000%Z.
