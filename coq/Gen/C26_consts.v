(* GENERATED on every run by harness/tools/genconsts from the repository's current source. Do not edit. *)
From Coq Require Import List NArith ZArith.
Import ListNotations.

(* tracker/trackerserver/config.go: assignment to .PeerHandoutLimit in Config.applyDefaults *)
Definition tracker_default_handout_limit : Z := 50%Z.
