(* GENERATED on every run by harness/tools/genconsts from the repository's current source. Do not edit. *)
From Coq Require Import List NArith ZArith.
Import ListNotations.

(* lib/healthcheck/config.go: assignment to .Fails in PassiveFilterConfig.applyDefaults *)
Definition pf_default_fails : Z := 3%Z.
(* lib/healthcheck/config.go: assignment to .FailTimeout in PassiveFilterConfig.applyDefaults *)
Definition pf_default_fail_timeout : Z := 300000000000%Z.
