(* GENERATED on every run by harness/tools/genconsts from the repository's current source. Do not edit. *)
From Coq Require Import List NArith ZArith.
Import ListNotations.

(* utils/cache/config.go: assignment to .Size in LRUCacheConfig.applyDefaults *)
Definition lru_default_size_src : Z := 300%Z.
(* utils/cache/config.go: assignment to .TTL in LRUCacheConfig.applyDefaults *)
Definition lru_default_ttl_ns_src : Z := 300000000000%Z.
