(* GENERATED on every run by harness/tools/genconsts from the repository's current source. Do not edit. *)
From Coq Require Import List NArith ZArith.
Import ListNotations.

(* lib/hashring/ring.go: _defaultWeight *)
Definition default_weight : Z := 100%Z.
(* lib/hashring/config.go: assignment to .MaxReplica in Config.applyDefaults *)
Definition default_max_replica : Z := 3%Z.
