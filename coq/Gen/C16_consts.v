(* GENERATED on every run by harness/tools/genconsts from the repository's current source. Do not edit. *)
From Coq Require Import List NArith ZArith.
Import ListNotations.

(* lib/torrent/scheduler/connstate/config.go: assignment to .MaxOpenConnectionsPerTorrent in Config.applyDefaults *)
Definition cs_default_max_open : Z := 10%Z.
(* lib/torrent/scheduler/connstate/config.go: assignment to .BlacklistDuration in Config.applyDefaults *)
Definition cs_default_blacklist_ns : Z := 30000000000%Z.
