(* GENERATED on every run by harness/tools/genconsts from the repository's current source. Do not edit. *)
From Coq Require Import List NArith ZArith.
Import ListNotations.

(* lib/store/base/const.go: DefaultDataFileName = "data" *)
Definition data_file_name : list N := [100; 97; 116; 97]%N.
(* lib/store/base/const.go: DefaultShardIDLength *)
Definition shard_id_length : Z := 2%Z.
(* lib/store/metadata/persist.go: _persistSuffix = "_persist" *)
Definition persist_suffix : list N := [95; 112; 101; 114; 115; 105; 115; 116]%N.
(* lib/store/metadata/last_access_time.go: _lastAccessTimeSuffix = "_last_access_time" *)
Definition lat_suffix : list N := [95; 108; 97; 115; 116; 95; 97; 99; 99; 101; 115; 115; 95; 116; 105; 109; 101]%N.
(* lib/store/metadata/torrentmeta.go: _torrentMetaSuffix = "_torrentmeta" *)
Definition torrentmeta_suffix : list N := [95; 116; 111; 114; 114; 101; 110; 116; 109; 101; 116; 97]%N.
(* lib/dockerregistry/metadata.go: _startedAtSuffix = "_startedat" *)
Definition startedat_suffix : list N := [95; 115; 116; 97; 114; 116; 101; 100; 97; 116]%N.
(* lib/torrent/storage/agentstorage/pieces.go: _pieceStatusSuffix = "_status" *)
Definition piecestatus_suffix : list N := [95; 115; 116; 97; 116; 117; 115]%N.
(* lib/dockerregistry/metadata.go: hashStateMetadata.GetSuffix, call #0 of Sprintf, argument 0 = "_hashstates/%s/%s" *)
Definition hashstate_fmt : list N := [95; 104; 97; 115; 104; 115; 116; 97; 116; 101; 115; 47; 37; 115; 47; 37; 115]%N.
