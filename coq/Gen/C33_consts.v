(* GENERATED on every run by harness/tools/genconsts from the repository's current source. Do not edit. *)
From Coq Require Import List NArith ZArith.
Import ListNotations.

(* origin/blobclient/cluster_client.go: Poll, comparison #4 (<), operand 1 *)
Definition poll_final_below : Z := 500%Z.
