(* GENERATED on every run by harness/tools/genconsts from the repository's current source. Do not edit. *)
From Coq Require Import List NArith ZArith.
Import ListNotations.

(* build-index/tagclient/client.go: call #0 of Sample, argument 0 *)
Definition tag_do_sample_size : Z := 3%Z.
(* build-index/tagclient/client.go: call #0 of Sample, argument 0 *)
Definition tag_doonce_sample_size : Z := 1%Z.
(* origin/blobclient/cluster_client.go: call #0 of Sample, argument 0 *)
Definition blob_locations_sample_size : Z := 3%Z.
