(* GENERATED on every run by harness/tools/genconsts from the repository's current source. Do not edit. *)
From Coq Require Import List NArith ZArith.
Import ListNotations.

(* core/digester.go: SHA256 = "sha256" *)
Definition digest_algo_name : list N := [115; 104; 97; 50; 53; 54]%N.
(* core/digest.go: ParseSHA256Digest, call #0 of Split, argument 1 = ":" *)
Definition digest_split_sep : list N := [58]%N.
(* core/digest.go: NewSHA256DigestFromHex, call #0 of Sprintf, argument 0 = "%s:%s" *)
Definition digest_raw_format : list N := [37; 115; 58; 37; 115]%N.
(* lib/torrent/storage/agentstorage/pieces.go: _empty *)
Definition piece_status_empty : Z := 0%Z.
(* lib/torrent/storage/agentstorage/pieces.go: _complete *)
Definition piece_status_complete : Z := 1%Z.
(* lib/torrent/storage/agentstorage/pieces.go: _dirty *)
Definition piece_status_dirty : Z := 2%Z.
