(* evaluators used by generated cases files; depends on the model only *)
From Coq Require Import List NArith Bool.
From K.Model Require Export C34.
Import ListNotations.

(* inputs + the implementation's observables *)
Record case := mkcase {
  k_cfg : cfg; k_req : req; k_kind : bkind; k_body : list N;
  k_bo : list bool; k_script : list rt;
  k_trips : list otrip; k_res : result;
  k_nb : option N   (* NextBackOff calls; None = not observable (no SendRetry option) *)
}.

Fixpoint idx_filter (f : case -> bool) (i : N) (cs : list case) : list N :=
  match cs with
  | [] => []
  | c :: t => if f c then i :: idx_filter f (N.succ i) t else idx_filter f (N.succ i) t
  end.

Definition agrees (fx : fixes) (k : case) : bool :=
  let '(ts, res, nb) := send_gen fx (k_cfg k) (k_req k) (k_kind k) (k_body k) (k_bo k) (k_script k) in
  otrips_eqb (map observe_trip ts) (k_trips k) && result_eqb res (k_res k)
  && match k_nb k with Some n => N.eqb nb n | None => true end.

Definition mismatches (cs : list case) : list N :=
  idx_filter (fun k => negb (agrees fixed k)) 0%N cs.
(* not used by the runner: validates the model of the pinned code against an unfixed tree *)
Definition mismatches_old (cs : list case) : list N :=
  idx_filter (fun k => negb (agrees pinned k)) 0%N cs.
Definition violations (cs : list case) : list N :=
  idx_filter (fun k => negb (C34_check (k_cfg k) (k_req k) (k_kind k) (k_body k) (k_bo k) (k_script k)
                                       (k_trips k) (k_res k)
                                       (match k_nb k with Some n => n | None => 0%N end))) 0%N cs.
