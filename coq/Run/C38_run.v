(* evaluators used by generated cases files; depends on the model only *)
From Coq Require Import List NArith Bool.
From K.Model Require Export C38 C38_layout.
Import ListNotations.
Local Open Scope N_scope.

(* Compact notation for paths in generated case files: a path is the join of its '/'-separated
   segments; frequent segments have names (the layout's keywords, a pool of digests). *)
Definition J (l : list (list N)) : list N := join l.
Definition kE : list N := [].
Definition kDocker : list N := [100; 111; 99; 107; 101; 114].
Definition kRegistry : list N := [114; 101; 103; 105; 115; 116; 114; 121].
Definition kV2 : list N := [118; 50].
Definition kRepos := s_repositories.
Definition kM := s_manifests.
Definition kLy := s_layers.
Definition kU := s_uploads.
Definition kB := s_blobs.
Definition kS := s_sha256.
Definition kT := s_tags.
Definition kRv := s_revisions.
Definition kDa := s_data.
Definition kL := s_link.
Definition kC := s_current.
Definition kI := s_index.
Definition kSt := s_startedat.
Definition kHs := s_hashstates.
Fixpoint reps (n : nat) (l : list N) : list N := match n with O => [] | S n' => l ++ reps n' l end.
Definition dg0 : list N := (* ff3a5c916c92643ff77519ffa742d3ec61b7f591b6b7504599d95a4a41134e28 (paths_test.go) *)
  [102; 102; 51; 97; 53; 99; 57; 49; 54; 99; 57; 50; 54; 52; 51; 102; 102; 55; 55; 53; 49; 57; 102; 102; 97; 55; 52; 50; 100; 51; 101; 99;
   54; 49; 98; 55; 102; 53; 57; 49; 98; 54; 98; 55; 53; 48; 52; 53; 57; 57; 100; 57; 53; 97; 52; 97; 52; 49; 49; 51; 52; 101; 50; 56].
Definition dg1 := reps 64 [97].                                  (* a...a *)
Definition dg2 := reps 64 [48].                                  (* 0...0 *)
Definition dg3 := reps 64 [102].                                 (* f...f *)
Definition dg4 := reps 4 [48; 49; 50; 51; 52; 53; 54; 55; 56; 57; 97; 98; 99; 100; 101; 102].   (* 0123456789abcdef x4 *)
Definition dg5 := reps 4 [97; 98; 99; 100; 101; 102; 48; 49; 50; 51; 52; 53; 54; 55; 56; 57].   (* abcdef0123456789 x4 *)
Definition dg6 := reps 32 [57; 101].                             (* 9e x32 *)
Definition dg7 := reps 16 [99; 48; 102; 102].                    (* c0ff x16 *)

(* To keep the generated files small, a string that occurs in the path is written as
   (Sub start length); anything else as (Str bytes). *)
Inductive ostr := Sub (start len : N) | Str (s : list N).
Definition rs (p : list N) (o : ostr) : list N :=
  match o with
  | Sub a l => firstn (N.to_nat l) (skipn (N.to_nat a) p)
  | Str s => s
  end.

(* the components a path was built from: kind number (order of Model.pk), KLayer's flag, components *)
Inductive rpk := RK (kind : N) (data : bool) (args : list ostr).
Definition mkpk (p : list N) (r : rpk) : option pk :=
  match r with
  | RK kind d args =>
      match kind, map (rs p) args with
      | 0, [r] => Some (KRevisions r)
      | 1, [r; h] => Some (KRevision r h)
      | 2, [r] => Some (KTags r)
      | 3, [r; t] => Some (KTagCurrent r t)
      | 4, [r; t; h] => Some (KTagIndex r t h)
      | 5, [r; h] => Some (KLayer d r h)
      | 6, [h] => Some (KBlob h)
      | 7, [r; u] => Some (KUploadData r u)
      | 8, [r; u] => Some (KUploadStartedAt r u)
      | 9, [r; u; a] => Some (KUploadHashStates r u a)
      | 10, [r; u; a; o] => Some (KUploadHashState r u a o)
      | _, _ => None
      end
  end.

(* what the eight real functions returned *)
Record robs := mkrobs {
  r_parse : option (ostr * ostr); r_repo : option ostr; r_tag : option (ostr * bool);
  r_blob : option ostr; r_layer : option ostr; r_manifest : option ostr; r_uuid : option ostr;
  r_algo : option (ostr * ostr) }.
Definition omap {A B} (f : A -> B) (o : option A) : option B := match o with Some x => Some (f x) | None => None end.
Definition resolve (p : list N) (o : robs) : obs :=
  let s := rs p in
  mkobs (omap (fun x => (s (fst x), s (snd x))) (r_parse o)) (omap s (r_repo o))
        (omap (fun x => (s (fst x), snd x)) (r_tag o)) (omap s (r_blob o)) (omap s (r_layer o))
        (omap s (r_manifest o)) (omap s (r_uuid o)) (omap (fun x => (s (fst x), s (snd x))) (r_algo o)).

Record case := mkcase { c_path : list N; c_built : option rpk; c_obs : robs }.

Fixpoint idx_filter (f : case -> bool) (i : N) (cs : list case) : list N :=
  match cs with
  | [] => []
  | c :: t => if f c then i :: idx_filter f (N.succ i) t else idx_filter f (N.succ i) t
  end.

Definition mismatches (cs : list case) : list N :=
  idx_filter (fun c => negb (obs_eqb (observe (c_path c)) (resolve (c_path c) (c_obs c)))) 0%N cs.
(* a case whose components do not decode is reported too (driver error must not pass silently) *)
Definition violations (cs : list case) : list N :=
  idx_filter (fun c =>
    match c_built c with
    | None => negb (C38_check2 (c_path c) None (resolve (c_path c) (c_obs c)))
    | Some r => match mkpk (c_path c) r with
                | None => true
                | Some k => negb (C38_check2 (c_path c) (Some k) (resolve (c_path c) (c_obs c)))
                end
    end) 0%N cs.
