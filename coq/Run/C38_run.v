(* evaluators used by generated cases files; depends on the model only *)
From Coq Require Import List NArith Bool.
From K.Model Require Export C38.
Import ListNotations.

(* one path, the components it was built from (None: mutated / arbitrary path), and what the
   eight real functions returned for it *)
Record case := mkcase { c_path : list N; c_built : option pk; c_obs : obs }.

Fixpoint idx_filter (f : case -> bool) (i : N) (cs : list case) : list N :=
  match cs with
  | [] => []
  | c :: t => if f c then i :: idx_filter f (N.succ i) t else idx_filter f (N.succ i) t
  end.

Definition mismatches (cs : list case) : list N :=
  idx_filter (fun c => negb (obs_eqb (observe (c_path c)) (c_obs c))) 0%N cs.
Definition violations (cs : list case) : list N :=
  idx_filter (fun c => negb (C38_check (c_path c) (c_built c) (c_obs c))) 0%N cs.
