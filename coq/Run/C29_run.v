(* evaluators used by generated cases files; depends on the model and the extracted constants *)
From Coq Require Import List NArith ZArith Bool.
From K.Model Require Export C29.
From K.Gen Require Import C29_consts.
Import ListNotations.
Local Open Scope N_scope.

(* the collector's interval and the RequestCache defaults are read from the source on every run *)
Definition gc_iv : N := Z.to_N task_gc_interval.
Definition rc_dflt : rcfg :=
  mkRC (Z.to_N rc_default_not_found_ttl) (Z.to_N rc_default_error_ttl)
       (Z.to_N rc_default_cleanup_interval) (Z.to_N rc_default_num_workers)
       (Z.to_N rc_default_busy_timeout).

Inductive case :=
| CLim (n : N) (ms : list lmac) (obs : list (list lstatus))       (* Limiter, n threads *)
| CRc (cf : rcfg) (n : N) (ms : list rmac) (obs : list (list rstatus))   (* RequestCache; cf as configured (0 = default) *)
| CTrap (iv : N) (ms : list tmac) (obs : list bool)                (* IntervalTrap *)
| CRef (e_nf : N) (r : option rres) (o : fres).                    (* Refresher's error mapping *)

Fixpoint idx_filter (f : case -> bool) (i : N) (cs : list case) : list N :=
  match cs with
  | [] => []
  | c :: t => if f c then i :: idx_filter f (N.succ i) t else idx_filter f (N.succ i) t
  end.

(* the model is that of the code WITH fixes/C29_gc_deleted_flag.patch (fx = true) *)
Definition agrees (c : case) : bool :=
  match c with
  | CLim n ms obs => list_eqb (list_eqb lstatus_eqb) (lmrun true gc_iv n linit ms) obs
  | CRc cf n ms obs => list_eqb (list_eqb rstatus_eqb) (rmrun (rc_defaults rc_dflt cf) n rinit ms) obs
  | CTrap iv ms obs => list_eqb Bool.eqb (tmrun iv (tinit 0) ms) obs
  | CRef e r o => fres_eqb (refresh_map e r) o
  end.

Definition C29_check (c : case) : bool :=
  match c with
  | CLim n ms obs => lim_check obs
  | CRc cf n ms obs => rc_check (rc_defaults rc_dflt cf) n ms obs
  | CTrap iv ms obs => trap_check iv ms obs
  | CRef e r o => fres_eqb (refresh_map e r) o
  end.

Definition mismatches (cs : list case) : list N := idx_filter (fun c => negb (agrees c)) 0%N cs.
Definition violations (cs : list case) : list N := idx_filter (fun c => negb (C29_check c)) 0%N cs.
