(* evaluators used by generated cases files; depends on the model and the extracted constants *)
From Coq Require Import List NArith ZArith Bool.
From K.Model Require Export C29.
From K.Gen Require Import C29_consts.
Import ListNotations.
Local Open Scope N_scope.

(* the collector's interval and the RequestCache defaults are read from the source on every run *)
Definition gc_iv : N := Z.to_N task_gc_interval.
Definition rc_dflt : rcfg :=
  mkRC (Z.to_N rc_default_not_found_ttl) (Z.to_N rc_default_error_ttl)
       (Z.to_N rc_default_cleanup_interval) (Z.to_N rc_default_num_workers)
       (Z.to_N rc_default_busy_timeout).

(* Cases are written compactly (Coq's cost of reading a cases file is proportional to the number of
   syntax nodes): one numeral per operation and one numeral per snapshot, decoded here.
     Limiter op:      4*dt | 1+4*(c+16*k) | 2+4*c | 3+4*(c+16*(out+256*ttl))
     Limiter status:  4*arg+tag, tag 0: arg 0 idle 1 hook 2 wait 3 transient; tag 1: SRun arg; tag 2: SDone arg
     RequestCache op: 4*dt | 1+4*(c+16*k) | 2+4*(c+16*(res+8*nx)), res 0 nil | 2*e+nf, nx 0 none | w+1
     RequestCache st: 4*arg+tag, tag 0: arg 0 idle 1 transient 2 pending 3 busy; tag 1: error arg;
                      tag 2: blocked arg; tag 3: executing arg
     snapshot:        sum over threads i of status_i * 256^i *)
Definition dec_lop (v : N) : lmac :=
  let x := v / 4 in
  match v mod 4 with
  | 0 => MTick x
  | 1 => MBegin (x mod 16) (x / 16)
  | 2 => MEnter x
  | _ => MFinish (x mod 16) ((x / 16) mod 256) (x / 16 / 256)
  end.
Definition dec_lst (v : N) : lstatus :=
  let a := v / 4 in
  match v mod 4 with
  | 0 => match a with 0 => SIdle | 1 => SHook | 2 => SWait | _ => STransient end
  | 1 => SRun a
  | _ => SDone a
  end.
Definition dec_rop (v : N) : rmac :=
  let x := v / 4 in
  match v mod 4 with
  | 0 => QTick x
  | 1 => QStart (x mod 16) (x / 16)
  | _ => let y := x / 16 in
         let res := y mod 8 in
         let nx := y / 8 in
         QFinish (x mod 16)
                 (if res =? 0 then None else Some (res / 2, N.odd res))
                 (if nx =? 0 then None else Some (nx - 1))
  end.
Definition dec_rst (v : N) : rstatus :=
  let a := v / 4 in
  match v mod 4 with
  | 0 => match a with 0 => QIdle | 1 => QTransient | 2 => QRet RPending | _ => QRet RBusy end
  | 1 => QRet (RErr a)
  | 2 => QBlocked a
  | _ => QRun a
  end.
Fixpoint dec_snap {A : Type} (d : N -> A) (n : nat) (v : N) : list A :=
  match n with
  | O => []
  | S n' => d (v mod 256) :: dec_snap d n' (v / 256)
  end.

Inductive case :=
| CLim (n : N) (ops : list N) (obs : list N)                 (* Limiter, n threads *)
| CRc (cf : rcfg) (n : N) (ops : list N) (obs : list N)      (* RequestCache; cf as configured (0 = default) *)
| CTrap (iv : N) (ms : list tmac) (obs : list bool)          (* IntervalTrap *)
| CStress (maxrun accepted runs : N).  (* free-running stress: largest number of overlapping executions
                                         of one key, accepted starts, executions *)

Fixpoint idx_filter (f : case -> bool) (i : N) (cs : list case) : list N :=
  match cs with
  | [] => []
  | c :: t => if f c then i :: idx_filter f (N.succ i) t else idx_filter f (N.succ i) t
  end.

Definition lobs (n : N) (obs : list N) := map (dec_snap dec_lst (N.to_nat n)) obs.
Definition robs (n : N) (obs : list N) := map (dec_snap dec_rst (N.to_nat n)) obs.

(* the model is that of the code WITH fixes/C29_gc_deleted_flag.patch (fx = true) *)
Definition agrees (c : case) : bool :=
  match c with
  | CLim n ops obs => list_eqb (list_eqb lstatus_eqb) (lmrun true gc_iv n linit (map dec_lop ops)) (lobs n obs)
  | CRc cf n ops obs =>
      list_eqb (list_eqb rstatus_eqb) (rmrun (rc_defaults rc_dflt cf) n rinit (map dec_rop ops)) (robs n obs)
  | CTrap iv ms obs => list_eqb Bool.eqb (tmrun iv (tinit 0) ms) obs
  | CStress m a r => true      (* the schedule is the Go scheduler's: nothing to predict *)
  end.

Definition C29_check (c : case) : bool :=
  match c with
  | CLim n ops obs => lim_check (lobs n obs)
  | CRc cf n ops obs => rc_check (rc_defaults rc_dflt cf) n (map dec_rop ops) (robs n obs)
  | CTrap iv ms obs => trap_check iv ms obs
  | CStress m a r => (m <=? 1) && (a =? r)
  end.

Definition mismatches (cs : list case) : list N := idx_filter (fun c => negb (agrees c)) 0%N cs.
Definition violations (cs : list case) : list N := idx_filter (fun c => negb (C29_check c)) 0%N cs.
