(* evaluators used by generated cases files; depends on the model only *)
From Coq Require Import List NArith ZArith Bool.
From K.Model Require Export C26.
Import ListNotations.

(* one case = one tracker (configuration) and one announce history, each op carrying what the
   environment answered (peer store, origin store), plus the responses the real handler gave *)
(* abbreviations used by the driver to keep the generated cases files small *)
Definition ag (i : N) (complete : bool) : peer := mkp i i (7000 + i) false complete.   (* an agent at its usual address *)
Definition og (i : N) : peer := mkp i i (9000 + i) true true.                          (* an origin *)
Notation T := true (only parsing).
Notation F := false (only parsing).

Record case := mkcase { c_cfg : config; c_ops : list announce; c_obs : list out }.

Fixpoint idx_filter (f : case -> bool) (i : N) (cs : list case) : list N :=
  match cs with
  | [] => []
  | c :: t => if f c then i :: idx_filter f (N.succ i) t else idx_filter f (N.succ i) t
  end.

(* model vs implementation: the peer store's answers were legal choices, and the responses are
   the model's modulo the order inside a priority class *)
Definition mismatches (cs : list case) : list N :=
  idx_filter (fun c => negb (legal (c_cfg c) (c_ops c)
                             && outs_equiv (c_policy (c_cfg c)) (snd (run (c_cfg c) init (c_ops c))) (c_obs c))) 0%N cs.
Definition violations (cs : list case) : list N :=
  idx_filter (fun c => negb (C26_check (c_cfg c) (c_ops c) (c_obs c))) 0%N cs.
