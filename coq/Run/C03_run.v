(* evaluators used by generated cases files; depends on the model only *)
From Coq Require Import List NArith ZArith Bool Arith.
From K.Model Require Export C03.
Import ListNotations.

(* compact constructors used by the driver's printer *)
Definition W (idx decl : Z) (chunks : list (list N)) (h : N) : winput := mkw idx decl chunks h.
Definition A (k : N) : hop := HAdv (N.to_nat k).
Definition R : hop := HReopen.
Definition bools (l : list N) : list bool := map (fun x => N.eqb x 1) l.
(* O file status sidecar incache committed ncomp bytes bits gate res *)
Definition O (f : option (list N)) (st sc : list N) (ic cm : N) (nc by_ : N) (bits : list N) (g r : N) : iobs :=
  mkiobs f (mkobs st sc [] (N.eqb ic 1) (N.eqb cm 1) nc by_ (bools bits) g r).
(* the small fields of an observation packed into one numeral, 4 bits per digit, from the least
   significant digit: gate, res, incache, committed, ncomp (2 digits), bytes (3 digits),
   |status|, |sidecar|, |bits|, then one digit per piece index: status + 4*sidecar + 8*bit *)
Definition dig (v : N) (k : N) : N := N.land (N.shiftr v (4 * k)%N) 15%N.
Definition idxs (n : N) : list N := map N.of_nat (seq 0 (N.to_nat n)).
Definition P' (f : option (list N)) (v : N) : iobs :=
  let d := dig v in
  O f (map (fun j => N.land (d (12 + j)%N) 3%N) (idxs (d 9%N)))
      (map (fun j => N.land (N.shiftr (d (12 + j)%N) 2%N) 1%N) (idxs (d 10%N)))
      (d 2%N) (d 3%N) (d 4 + 16 * d 5)%N (d 6 + 16 * d 7 + 256 * d 8)%N
      (map (fun j => N.shiftr (d (12 + j)%N) 3%N) (idxs (d 11%N)))
      (d 0%N) (d 1%N).
Definition P (v : N) : iobs := P' None v.
Definition Q (f : list N) (v : N) : iobs := P' (Some f) v.

Definition F (pieces : list (option (list N))) (cache : option (list N)) (res : list N) : fin :=
  mkfin pieces cache res.

Record case := mkcase {
  k_pl : N;                         (* piece length *)
  k_blob : list N;
  k_psums : list N;                 (* MetaInfo.GetPieceSum(i) *)
  k_ws : list winput;               (* the WritePiece calls *)
  k_mode : N;                       (* 0 = scheduled at gate granularity, 1 = free-running goroutines,
                                       2 = through TorrentArchive, callers one after the other, no gates *)
  k_steps : list (hop * iobs);      (* macro steps with the implementation's observation after each *)
  k_fo : iobs;                      (* the quiescent end state ... *)
  k_fin : fin;                      (* ... and what its clients read *)
  k_unit : list (list N)            (* piece status machine probed directly for status bytes 0,1,2 ([] = not probed) *)
}.

Definition cfg_of (k : case) : cfg := mkcfg (N.to_nat (k_pl k)) (length (k_blob k)) (k_psums k).

(* resolve "file unchanged since the last report" *)
Definition with_file (o : obs) (f : list N) : obs :=
  mkobs (o_status o) (o_sidecar o) f (o_incache o) (o_committed o) (o_ncomp o) (o_bytes o) (o_bits o)
        (o_gate o) (o_res o).
Fixpoint fill (prev : list N) (l : list iobs) : list obs * list N :=
  match l with
  | [] => ([], prev)
  | i :: t => let f := match i_file i with Some f => f | None => prev end in
              let '(os, last) := fill f t in (with_file (i_rest i) f :: os, last)
  end.

(* a recovered panic (pinned code, negative index) is compared as an early rejection *)
Definition norm_res (r : N) : N := if N.eqb r 7 then 1%N else r.
Definition norm_obs (o : obs) : obs :=
  mkobs (o_status o) (o_sidecar o) (o_file o) (o_incache o) (o_committed o) (o_ncomp o) (o_bytes o) (o_bits o)
        (o_gate o) (norm_res (o_res o)).
Definition norm_fin (f : fin) : fin := mkfin (f_pieces f) (f_cache f) (map norm_res (f_results f)).

Definition impl_obs (k : case) : list obs * obs :=
  let '(os, last) := fill (repeat 0%N (length (k_blob k))) (map snd (k_steps k)) in
  let '(fo, _) := fill last [k_fo k] in
  (os, hd (with_file (i_rest (k_fo k)) last) fo).

Definition model_agrees (k : case) : bool :=
  let c := cfg_of k in
  let '(S1, mos) := hrun c (start (init_fresh c) (k_ws k)) (map fst (k_steps k)) in
  let '(ios, ifo) := impl_obs k in
  list_eqb obs_eqb mos (map norm_obs ios) &&
  obs_eqb (observe_state c S1) (norm_obs ifo) &&
  fin_eqb (fin_of c S1) (norm_fin (k_fin k)).

(* mode 2: every caller runs to its return before the next one starts; NewTorrent (GetTorrent) in
   between is the identity on idle states (C03_reopen_is_identity) *)
Fixpoint adv_done (fuel : nat) (c : cfg) (S : sys) (k : nat) : sys :=
  match fuel with
  | 0 => S
  | Datatypes.S f => match pc_of S k with PDone _ => S | _ => adv_done f c (advance c S k) k end
  end.
Definition run_seq (c : cfg) (S : sys) (n : nat) : sys := fold_left (fun S k => adv_done 16 c S k) (seq 0 n) S.

Definition model_agrees_seq (k : case) : bool :=
  let c := cfg_of k in
  let S1 := run_seq c (start (init_fresh c) (k_ws k)) (length (k_ws k)) in
  let '(_, ifo) := impl_obs k in
  obs_eqb (observe_state c S1) (norm_obs ifo) && fin_eqb (fin_of c S1) (norm_fin (k_fin k)).

Definition unit_ok (k : case) : bool :=
  match k_unit k with
  | [] => true
  | u => list_eqb (list_eqb N.eqb) u (map piece_unit [0; 1; 2]%N)
  end.

Definition raw_ok (k : case) : bool :=
  let c := cfg_of k in
  let '(ios, ifo) := impl_obs k in
  check_raw c (k_blob k) (k_ws k) ios ifo (k_fin k).

Definition mismatch (k : case) : bool :=
  let c := cfg_of k in
  negb (geometry_ok c (k_blob k)) || negb (unit_ok k) ||
  (N.eqb (k_mode k) 2 && negb (model_agrees_seq k) && (forallb honest (k_ws k) || negb (raw_ok k))) ||
  (N.eqb (k_mode k) 0 && negb (hist_ok c (start (init_fresh c) (k_ws k)) (map fst (k_steps k)))) ||
  (N.eqb (k_mode k) 0 &&
   negb (model_agrees k) &&
   (* outside the PieceReader contract (Length() understates the stream) the model transcribes
      the overflow; an implementation that refuses it and keeps the property is also accepted *)
   (forallb honest (k_ws k) || negb (raw_ok k))).

Definition violation (k : case) : bool :=
  let c := cfg_of k in
  let '(ios, ifo) := impl_obs k in
  negb (C03_check c (k_blob k) (k_ws k) ios ifo (k_fin k)).

Fixpoint idx_filter (f : case -> bool) (i : N) (cs : list case) : list N :=
  match cs with
  | [] => []
  | c :: t => if f c then i :: idx_filter f (N.succ i) t else idx_filter f (N.succ i) t
  end.

Definition mismatches (cs : list case) : list N := idx_filter mismatch 0%N cs.
Definition violations (cs : list case) : list N := idx_filter violation 0%N cs.
