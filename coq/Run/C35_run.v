(* evaluators used by generated cases files; depends on the model only *)
From Coq Require Import List NArith Bool.
From K.Model Require Export C35.
Import ListNotations.
Local Open Scope N_scope.

(* one case = the environment the harness scripted + what the real code returned *)
Record case := mkcase { c_in : input; c_obs : obs }.

(* compact notation for long byte strings in cases files (the harness has the same
   generator and checks its own encoding by decoding it again before emitting):
   pat s n = n bytes of the sequence x0 = s mod 2^20, x' = (77 x + 75) mod 2^20, byte = bits 12..19 of x *)
Definition pat (s n : N) : list N :=
  rev' (snd (N.iter n (fun st => let x := fst st in
                                (N.land (77 * x + 75) 1048575, N.land (N.shiftr x 12) 255 :: snd st))
                   (N.land s 1048575, []))).
(* first k elements *)
Definition pre (k : N) (l : list N) : list N := firstn (N.to_nat k) l.

Fixpoint idx_filter (f : case -> bool) (i : N) (cs : list case) : list N :=
  match cs with
  | [] => []
  | c :: t => if f c then i :: idx_filter f (N.succ i) t else idx_filter f (N.succ i) t
  end.

Definition mismatches (cs : list case) : list N :=
  idx_filter (fun c => negb (obs_eqb (run (c_in c)) (c_obs c))) 0 cs.
Definition violations (cs : list case) : list N :=
  idx_filter (fun c => negb (C35_check (c_in c) (c_obs c))) 0 cs.
