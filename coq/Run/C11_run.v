(* evaluators used by generated cases files; depends on the model only.
   Byte strings arrive packed: X 0x1<hex of the bytes> (leading 1 = sentinel keeping leading zero bytes). *)
From Coq Require Import List NArith ZArith Bool.
From K.Gen Require Import C11_consts.
From K.Model Require Export C11.
Import ListNotations.
Local Open Scope N_scope.

(* ---- decoding of packed strings (structural on the binary numeral, linear) *)
Fixpoint pos_bytes (p : positive) (cur w : N) (acc : str) : str :=
  match p with
  | xH => acc
  | xO p' => if w =? 128 then pos_bytes p' 0 1 (cur :: acc) else pos_bytes p' cur (2 * w) acc
  | xI p' => if w =? 128 then pos_bytes p' 0 1 ((cur + w) :: acc) else pos_bytes p' (cur + w) (2 * w) acc
  end.
Definition X (n : N) : str := match n with N0 => [] | Npos p => pos_bytes p 0 1 [] end.

(* ---- cases *)
Inductive case :=
(* path/filepath and net/url against the model's functions *)
| CClean (p o : str)
| CJoin (elems : list str) (o : str)
| CDir (p o : str)
| CUnesc (raw : str) (o : option str)
(* real core.ParseSHA256Digest: Some (Hex()) or None *)
| CDigest (raw : str) (o : option str)
(* a real chi router + httputil.ParseParam: observed (chi.URLParam, ParseParam result); None = 4xx *)
| CRoute (raw : str) (oparam : option str) (oname : option str)
(* real NewLocalFileEntryFactory().Create(name, NewFileState(dir)) -> GetPath();  None = error *)
| CLocal (dir name : str) (o : option str)
(* real NewCASFileEntryFactory().Create(name, state).GetPath() *)
| CCas (dir name : str) (o : str)
(* real base.NewLocalFileStore on a sandbox  o/w/s  (s = store directory): CreateFile, SetFileMetadata,
   write, read back; [files] = regular files below s relative to s; then un-persist + DeleteFile;
   [after] = files left; [outside] = number of differences in the snapshot of everything outside s *)
| CStore (name : str) (ok : bool) (files after : list str) (outside : N)
(* real tagserver / origin blobserver over TCP, hostile path parameter [raw]; [aux] = the genuine
   upload id for the upload endpoints; [files] = regular files below the store roots ("c/..", "u/..");
   [outside] as above; [leak] = a response carried the content of a decoy file outside the roots *)
| CHttp (ep : N) (raw aux : str) (ok : bool) (files : list str) (outside : N) (leak : bool).

Definition ostr_eqb (a b : option str) : bool :=
  match a, b with
  | None, None => true
  | Some x, Some y => str_eqb x y
  | _, _ => false
  end.
Definition mem (x : str) (l : list str) : bool := existsb (str_eqb x) l.
Definition no_files (l : list str) : bool := match l with [] => true | _ => false end.
Definition subset (a b : list str) : bool := forallb (fun x => mem x b) a.

Definition slash_s : str := [slash].
(* files an entry named [name] may own below its state directory *)
Definition must_files (pre name : str) : list str :=
  [pre ++ name ++ slash_s ++ data_name; pre ++ name ++ slash_s ++ persist_suffix].
Definition may_files (pre name : str) : list str :=
  must_files pre name ++ [pre ++ name ++ slash_s ++ lat_suffix].

Definition cache_pre : str := [99; 47].   (* "c/" *)

(* endpoints: 0 PUT /tags + GET, 1 PUT /internal/duplicate/tags + GET, 2 GET /tags on an empty store,
   3 duplicate-put + POST /remotes/tags, 4 cluster upload PATCH+PUT, 5 internal upload PATCH+PUT,
   6 duplicate commit PUT, 7 hostile blob name (digest parameter): POST /internal/blobs/{d}/uploads,
   GET /namespace/ns/blobs/{d}, DELETE /internal/blobs/{d}; ok = the upload was started *)
Definition tag_ep (ep : N) : bool := (ep =? 0) || (ep =? 1) || (ep =? 3).
Definition upload_ep (ep : N) : bool := (ep =? 4) || (ep =? 5) || (ep =? 6).
Definition digest_ep (ep : N) : bool := ep =? 7.
Definition is_some (o : option str) : bool := match o with Some _ => true | None => false end.

Definition exp_http_ok (ep : N) (raw aux : str) : bool :=
  match http_name raw with
  | None => false
  | Some name =>
      if tag_ep ep then local_accepts name && storable name
      else if upload_ep ep then local_accepts name && str_eqb name aux
      else if digest_ep ep then is_some (parse_digest name)
      else false
  end.

Definition agrees (c : case) : bool :=
  match c with
  | CClean p o => str_eqb (clean p) o
  | CJoin elems o => str_eqb (join elems) o
  | CDir p o => str_eqb (dir_of p) o
  | CUnesc raw o => ostr_eqb (unescape raw) o
  | CDigest raw o => ostr_eqb (parse_digest raw) o
  | CRoute raw op on => ostr_eqb (route_param raw) op && ostr_eqb (http_name raw) on
  | CLocal dir name o => ostr_eqb (local_create dir name) o
  | CCas dir name o => str_eqb (cas_path dir name) o
  | CStore name ok files after outside =>
      if local_accepts name then
        if storable name
        then ok && subset (must_files [] name) files && subset files (may_files [] name) && no_files after
        else negb ok
      else negb ok && no_files files && no_files after
  | CHttp ep raw aux ok files outside leak =>
      Bool.eqb ok (exp_http_ok ep raw aux) &&
      (if tag_ep ep then
         match http_name raw with
         | Some name =>
             if local_accepts name then
               if storable name
               then subset (must_files cache_pre name) files && subset files (may_files cache_pre name)
               else true
             else no_files files
         | None => no_files files
         end
       else true)
  end.

(* the property on the implementation's observables *)
Definition holds (c : case) : bool :=
  match c with
  | CLocal dir name o => C11_check dir o
  | CCas dir name o => if cas_name_ok name then inside (clean dir) o else true
  | CDigest raw o => match o with Some h => cas_name_ok h | None => true end
  | CStore name ok files after outside =>
      (outside =? 0) && forallb (inside [dot]) files && forallb (inside [dot]) after
      && (if ok then normal_path name else true)
  | CHttp ep raw aux ok files outside leak =>
      (outside =? 0) && negb leak && forallb (inside [dot]) files
      && (if ok then match http_name raw with
                     | Some name => if digest_ep ep then is_some (parse_digest name) else normal_path name
                     | None => false
                     end
          else true)
  | _ => true
  end.

Fixpoint idx_filter (f : case -> bool) (i : N) (cs : list case) : list N :=
  match cs with
  | [] => []
  | c :: t => if f c then i :: idx_filter f (N.succ i) t else idx_filter f (N.succ i) t
  end.

Definition mismatches (cs : list case) : list N := idx_filter (fun c => negb (agrees c)) 0%N cs.
Definition violations (cs : list case) : list N := idx_filter (fun c => negb (holds c)) 0%N cs.
