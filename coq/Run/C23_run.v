(* evaluators used by generated cases files; depends on the model only *)
From Coq Require Import List NArith ZArith Bool.
From K.Model Require Export C23.
Import ListNotations.

(* c_f, c_p: Fails/Passes as passed to NewFilter (0 = default); c_hist: the Run calls;
   c_obs: what Filter.Run returned for each; c_mon: initial host set and the Resolve() snapshots
   (before the first and after every iteration) of a Monitor driving a second Filter through
   the same calls, when that path was exercised. *)
Record case := mkcase { c_f : Z; c_p : Z; c_hist : list runop; c_obs : list (list N);
                        c_mon : option (list N * list (list N)) }.

Fixpoint idx_filter (f : case -> bool) (i : N) (cs : list case) : list N :=
  match cs with
  | [] => []
  | c :: t => if f c then i :: idx_filter f (N.succ i) t else idx_filter f (N.succ i) t
  end.

(* the harness must hand over sets: no address twice in one call *)
Fixpoint nodupb (l : list N) : bool :=
  match l with [] => true | x :: t => negb (mem x t) && nodupb t end.
Definition wf_case (c : case) : bool := forallb (fun r => nodupb (addrs_of r)) (c_hist c).

Definition model_agrees (c : case) : bool :=
  let cf := apply_defaults (c_f c) (c_p c) in
  wf_case c &&
  sets_eqb (c_obs c) (outs cf (c_hist c)) &&
  match c_mon c with
  | None => true
  | Some (i, snaps) => sets_eqb snaps (monitor cf i (c_hist c))
  end.

Definition property_holds (c : case) : bool :=
  C23_check (c_f c) (c_p c) (c_hist c) (c_obs c) &&
  match c_mon c with
  | None => true
  | Some (i, snaps) => C23_check_mon (c_f c) (c_p c) i (c_hist c) snaps
  end.

Definition mismatches (cs : list case) : list N := idx_filter (fun c => negb (model_agrees c)) 0%N cs.
Definition violations (cs : list case) : list N := idx_filter (fun c => negb (property_holds c)) 0%N cs.
