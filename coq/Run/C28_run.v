(* evaluators used by generated cases files; depends on the model only *)
From Coq Require Import List NArith ZArith Bool Uint63.
From K.Model Require Export C28.
Import ListNotations.

Record case := mkcase { c_cfg : cfg; c_t0 : Z; c_ops : list op; c_obs : list out }.

(* cases files carry byte strings packed into primitive 63-bit integers (a literal is one
   node for the elaborator): pk [len; w1; w2; ...], 7 bytes per word, big-endian, the last
   word holding the remaining len mod 7 bytes.  pk [3; 0x3a3a31] = [58; 58; 49]. *)
Fixpoint be_bytes (k : nat) (z : Z) (acc : list N) : list N :=
  match k with
  | O => acc
  | S k' => be_bytes k' (z / 256)%Z (Z.to_N (z mod 256)%Z :: acc)
  end.
Fixpoint pk_go (len : nat) (l : list Uint63.int) : list N :=
  match l with
  | [] => []
  | x :: t => let k := Nat.min len 7 in be_bytes k (Uint63.to_Z x) [] ++ pk_go (len - k) t
  end.
Definition pk (l : list Uint63.int) : list N :=
  match l with
  | [] => []
  | n :: t => pk_go (Z.to_nat (Uint63.to_Z n)) t
  end.
Example pk_ex1 : pk [3; 0x3a3a31]%uint63 = [58; 58; 49]%N.
Proof. vm_compute. reflexivity. Qed.
Example pk_ex2 : pk [9; 0x00010203040506; 0xff00]%uint63 = [0; 1; 2; 3; 4; 5; 6; 255; 0]%N.
Proof. vm_compute. reflexivity. Qed.
Example pk_ex3 : pk [0]%uint63 = [] /\ pk [7; 0x70656572736574]%uint63 = [112; 101; 101; 114; 115; 101; 116]%N.
Proof. vm_compute. split; reflexivity. Qed.

Fixpoint idx_filter (f : case -> bool) (i : N) (cs : list case) : list N :=
  match cs with
  | [] => []
  | c :: t => if f c then i :: idx_filter f (N.succ i) t else idx_filter f (N.succ i) t
  end.

Definition strs_subset (a b : list str) : bool := forallb (fun s => mem_str s b) a.
Definition optZ_eqb (a b : option Z) : bool :=
  match a, b with
  | None, None => true
  | Some x, Some y => Z.eqb x y
  | _, _ => false
  end.
(* Redis content compared as a set of keys, each with a set of members and its expiry *)
Definition row_eqb (a b : dump_row) : bool :=
  let '(ka, ma, ea) := a in let '(kb, mb, eb) := b in
  str_eqb ka kb && strs_subset ma mb && strs_subset mb ma
  && Nat.eqb (length ma) (length mb) && optZ_eqb ea eb.
Definition rows_eqb (a b : list dump_row) : bool :=
  Nat.eqb (length a) (length b) && forallb (fun r => existsb (row_eqb r) b) a.

Definition out_eqb (a b : out) : bool :=
  match a, b with
  | ODb x, ODb y => rows_eqb x y
  | OKeys x, OKeys y =>
      Nat.eqb (length x) (length y)
      && forallb (fun r => existsb (fun q => str_eqb (fst r) (fst q) && optZ_eqb (snd r) (snd q)) y) x
  | OGet oa pa, OGet ob pb =>
      Bool.eqb oa ob && peers_subset pa pb && peers_subset pb pa
      && Nat.eqb (length pa) (length pb)
  | _, _ => false
  end.
Fixpoint outs_eqb (a b : list out) : bool :=
  match a, b with
  | [], [] => true
  | x :: a', y :: b' => out_eqb x y && outs_eqb a' b'
  | _, _ => false
  end.

Definition mismatches (cs : list case) : list N :=
  idx_filter (fun c => negb (outs_eqb (snd (run (c_cfg c) (init_at (c_t0 c)) (c_ops c))) (c_obs c))) 0%N cs.
Definition violations (cs : list case) : list N :=
  idx_filter (fun c => negb (C28_check (c_cfg c) (c_t0 c) (c_ops c) (c_obs c))) 0%N cs.
