(* evaluators used by generated cases files; depends on the model only *)
From Coq Require Import List NArith ZArith Bool.
From Coq Require Export Uint63.
From K.Model Require Export C01.
Import ListNotations.
Local Open Scope N_scope.

(* A case names every byte string once, in a table that also carries the canonical name of its
   SHA-256 (computed by the Go side); operations and observations refer to table indices. *)
(* compact, monomorphic spelling of observations (fast to elaborate) *)
Inductive vw :=
| V0                                        (* nothing readable *)
| VD (d s : N)                              (* data (table index), size; no metainfo *)
| VM (d s mn mc : N) (pl : Z)               (* data, size, metainfo (name, table index of the bytes it describes, piece length) *)
| VX (d s : option N) (m : option (N * N * Z)).
Definition vw_view (v : vw) : view N :=
  match v with
  | V0 => mkview None None None
  | VD d s => mkview (Some d) (Some s) None
  | VM d s mn mc pl => mkview (Some d) (Some s) (Some (mn, mc, pl))
  | VX d s m => mkview d s m
  end.
Inductive ob :=
| OB (r : out) (v : list vw)                (* the HTTP views equal the direct views *)
| OB2 (r : out) (dv hv : list vw)
| OBD (r : out) (ch : list (N * vw)).       (* HTTP = direct = the previous operation's direct views, updated at the listed positions *)
Fixpoint upd (vs : list vw) (i : nat) (v : vw) : list vw :=
  match vs, i with
  | [], _ => []
  | _ :: t, O => v :: t
  | x :: t, S j => x :: upd t j v
  end.
Fixpoint expand (prev : list vw) (l : list ob) : list (obs N) :=
  match l with
  | [] => []
  | OB r v :: t => (r, map vw_view v, map vw_view v) :: expand v t
  | OB2 r dv hv :: t => (r, map vw_view dv, map vw_view hv) :: expand dv t
  | OBD r ch :: t =>
      let cur := fold_left (fun vs p => upd vs (N.to_nat (fst p)) (snd p)) ch prev in
      (r, map vw_view cur, map vw_view cur) :: expand cur t
  end.

Record case := mkcase {
  k_mem : bool; k_skip : bool; k_lenchk : bool; k_retry : N; k_ttl : N; k_genpl : Z;
  k_names : list N;                (* the names observed after every operation *)
  k_ptab : list (N * list int * N);  (* content table: length, the bytes packed 7 per primitive integer
                                        (little-endian; primitive literals parse fast), digest name *)
  k_ops : list (op N);
  k_ob : list ob
}.
Definition byte_of (w : int) (i : int) : N :=
  Z.to_N (Uint63.to_Z (Uint63.land (Uint63.lsr w (Uint63.mul 8 i)) 255)).
Definition unpack7 (w : int) : bytes :=
  [byte_of w 0; byte_of w 1; byte_of w 2; byte_of w 3; byte_of w 4; byte_of w 5; byte_of w 6]%uint63.
Definition unpack (l : N) (ws : list int) : bytes :=
  firstn (N.to_nat l) (concat (map unpack7 ws)).
Definition k_tab (c : case) : list (bytes * N) :=
  map (fun e => let '(l, ws, d) := e in (unpack l ws, d)) (k_ptab c).
Definition k_obs (c : case) : list (obs N) := expand (map (fun _ => V0) (k_names c)) (k_ob c).

(* the model evaluated is the FIXED code (fixes/C01_mem_path_verify.patch applied) *)
Definition cfg_of (c : case) : cfg :=
  mkcfg (k_mem c) (k_skip c) true (k_lenchk c) (k_retry c) (k_ttl c) (k_genpl c).

Definition unknown_digest : N := 4294967295.

Definition tbytes (tab : list (bytes * N)) (i : N) : bytes :=
  match nth_error tab (N.to_nat i) with Some (b, _) => b | None => [] end.
Fixpoint tcid_from (tab : list (bytes * N)) (i : N) (b : bytes) : N :=
  match tab with
  | [] => i
  | (b', _) :: t => if bytes_eqb b' b then i else tcid_from t (N.succ i) b
  end.
Definition tcid tab b := tcid_from tab 0 b.
Fixpoint Htab (tab : list (bytes * N)) (b : bytes) : N :=
  match tab with
  | [] => unknown_digest
  | (b', d) :: t => if bytes_eqb b' b then d else Htab t b
  end.

Definition map_stream {A B} (f : A -> B) (w : stream A) : stream B :=
  mkstream (map f (s_chunks w)) (s_err w).
Definition map_op {A B} (f : A -> B) (o : op A) : op B :=
  match o with
  | UStart c n u => UStart c n u
  | UPatch c n u a b body => UPatch c n u a b (f body)
  | UCommit c n u => UCommit c n u
  | UCommitRaced c n u a b body => UCommitRaced c n u a b (f body)
  | Create n w => Create n (map_stream f w)
  | Refresh n r st w1 w2 pl => Refresh n r st (map_stream f w1) (map_stream f w2) pl
  | Drain e => Drain e
  | Tick d => Tick d
  | Expire => Expire
  | Delete n => Delete n
  | GenMeta n pl => GenMeta n pl
  end.
Definition map_view {A B} (f : A -> B) (v : view A) : view B :=
  mkview (option_map f (v_data v)) (v_size v)
         (option_map (fun m => let '(n, c, p) := m in (n, f c, p)) (v_meta v)).
Definition map_obs {A B} (f : A -> B) (o : obs A) : obs B :=
  let '(r, dv, hv) := o in (r, map (map_view f) dv, map (map_view f) hv).

Definition nmeta_eqb (a b : N * N * Z) : bool :=
  let '(n1, c1, p1) := a in let '(n2, c2, p2) := b in (n1 =? n2) && (c1 =? c2) && (p1 =? p2)%Z.
Definition nview_eqb (a b : view N) : bool :=
  opt_eqb N.eqb (v_data a) (v_data b) && opt_eqb N.eqb (v_size a) (v_size b)
  && opt_eqb nmeta_eqb (v_meta a) (v_meta b).
Definition nobs_eqb (a b : obs N) : bool :=
  let '(r1, d1, h1) := a in let '(r2, d2, h2) := b in
  out_eqb r1 r2 && list_eqb nview_eqb d1 d2 && list_eqb nview_eqb h1 h2.

Definition model_obs (c : case) : list (obs N) :=
  map (map_obs (tcid (k_tab c)))
      (snd (run (Htab (k_tab c)) (cfg_of c) (k_names c) init (map (map_op (tbytes (k_tab c))) (k_ops c)))).

Definition agrees (c : case) : bool := list_eqb nobs_eqb (model_obs c) (k_obs c).
Definition holds (c : case) : bool :=
  C01_check (Htab (k_tab c)) (cfg_of c) (k_names c)
            (map (map_op (tbytes (k_tab c))) (k_ops c))
            (map (map_obs (tbytes (k_tab c))) (k_obs c)).

Fixpoint idx_filter (f : case -> bool) (i : N) (cs : list case) : list N :=
  match cs with
  | [] => []
  | c :: t => if f c then i :: idx_filter f (N.succ i) t else idx_filter f (N.succ i) t
  end.

Definition mismatches (cs : list case) : list N := idx_filter (fun c => negb (agrees c)) 0 cs.
Definition violations (cs : list case) : list N := idx_filter (fun c => negb (holds c)) 0 cs.

(* Stream "peek": a large mismatching blob is written through the memory write-through path while
   a second goroutine polls the three getters under its name.  seen = something was readable under
   the name during (or after) a write that must fail verification.  The model (entry added only
   after verification) says nothing is ever readable; an observation with seen = true is spelled as
   data whose digest (1000) is not the name (1): it disagrees with the model and violates C01_check. *)
Definition peekcase (seen : bool) : case :=
  mkcase true false true 1 20 4%Z [1] [(0, [], 1000)] [Tick 0]
         [if seen then OB OOk [VD 0 0] else OB OOk [V0]].
