(* evaluators used by generated cases files; depends on the model only.
   A case is one schedule executed on the real tiered.Store: client operations / eviction events
   with their observed results, and worker releases (`MW`: let the parked worker run to its next
   park point; `MWC`: same with flusher.mu held by the driver, so that it stops at the next
   f.mu.Lock) with the park point reached. *)
From Coq Require Import List NArith Bool.
From K.Model Require Export C09.
Import ListNotations.
Local Open Scope N_scope.

Inductive mop :=
| C (o : op)
| MW (ns : option key)        (* Some k: the worker's disk.Create(k) failed for lack of space *)
| MWC (ns : option key).
Inductive mout :=
| MO (r : out)
| MP (pt k : N).              (* park point reached, key being flushed (0 when idle) *)

Record case := mkcase { c_steps : list (mop * mout) }.

Definition pt_of (p : pc) : N :=
  match p with
  | WIdle => 0 | WStart _ _ => 1 | WOpened _ _ _ => 2 | WCreated _ _ _ _ => 3
  | WChecked _ _ _ _ => 4 | WCopied _ _ _ => 5 | WDataDone _ _ => 6 | WMd _ _ _ => 7
  | WMdFlushed _ _ => 8 | WUnban _ => 9 | WFail2 _ => 10
  | WLoop _ _ | WMdW _ _ _ _ _ | WFail1 _ => 11
  end.
Definition key_of (p : pc) : N := match wkey p with Some k => k | None => 0 end.

(* park points of a plain release: the five verifYield hooks, the memOpen/ioCopy seams, idle *)
Definition is_park (p : pc) : bool :=
  match p with
  | WIdle | WStart _ _ | WOpened _ _ _ | WChecked _ _ _ _ | WCopied _ _ _ | WDataDone _ _
  | WMdFlushed _ _ | WUnban _ => true
  | _ => false
  end.
Definition is_snap (p : pc) : bool := match p with WDataDone _ _ | WLoop _ _ => true | _ => false end.
Definition is_mutex_park (p : pc) : bool := match p with WCreated _ _ _ _ | WFail2 _ => true | _ => false end.

Definition isSome {A} (o : option A) : bool := match o with Some _ => true | None => false end.

Fixpoint advance (fuel : nat) (held : bool) (s : st) (ns : bool) (evs : list wev) : st * list wev :=
  match fuel with
  | O => (s, evs)
  | S f =>
      let p0 := wpc s in
      let '(s1, e) := wstep s ns in
      let evs1 := match e with WNoSpace _ => evs ++ [e] | _ => evs end in
      if held then (if is_mutex_park (wpc s1) then (s1, evs1) else advance f held s1 ns evs1)
      else match wpc s1 with
           | WIdle =>
               (* the real worker keeps calling nextToFlush until the queue is empty *)
               if isSome (fst (pop (fblobs s1) (queue s1))) then advance f held s1 ns evs1
               else (fst (wstep s1 ns), evs1)
           | p1 => if is_park p1 || is_snap p0 then (s1, evs1) else advance f held s1 ns evs1
           end
  end.

Definition wev_eqb (a b : wev) : bool :=
  match a, b with
  | WNone, WNone => true
  | WNoSpace x, WNoSpace y | WExist x, WExist y => x =? y
  | _, _ => false
  end.
Definition evs_ok (ns : option key) (evs : list wev) : bool :=
  match ns, evs with
  | None, [] => true
  | Some k, [WNoSpace k'] => k =? k'
  | _, _ => false
  end.

Definition mstep (s : st) (o : mop) : st * mout * bool :=
  match o with
  | C o => let '(s1, r) := step s o in (s1, MO r, true)
  | MW ns => let '(s1, evs) := advance 64 false s (isSome ns) [] in
             (s1, MP (pt_of (wpc s1)) (key_of (wpc s1)), evs_ok ns evs)
  | MWC ns => let '(s1, evs) := advance 64 true s (isSome ns) [] in
              (s1, MP (pt_of (wpc s1)) (key_of (wpc s1)), evs_ok ns evs)
  end.

Fixpoint list_eqb {A} (f : A -> A -> bool) (a b : list A) : bool :=
  match a, b with
  | [], [] => true
  | x :: a', y :: b' => f x y && list_eqb f a' b'
  | _, _ => false
  end.
Definition err_eqb (a b : err) : bool :=
  match a, b with
  | ENotExist, ENotExist | EExist, EExist | EOutOfScope, EOutOfScope | EOther, EOther => true
  | _, _ => false
  end.
Definition out_eqb (a b : out) : bool :=
  match a, b with
  | OOk, OOk | OBad, OBad => true
  | OErr x, OErr y => err_eqb x y
  | OBytes x, OBytes y => list_eqb N.eqb x y
  | OHas a1 a2, OHas b1 b2 => Bool.eqb a1 b1 && Bool.eqb a2 b2
  | OKeys x, OKeys y => list_eqb N.eqb x y
  | OMd x, OMd y => opt_bytes_eqb x y
  | OWhere a1 a2 a3 a4, OWhere b1 b2 b3 b4 =>
      Bool.eqb a1 b1 && Bool.eqb a2 b2 && Bool.eqb a3 b3 && Bool.eqb a4 b4
  | OW x, OW y => wev_eqb x y
  | _, _ => false
  end.
Definition mout_eqb (a b : mout) : bool :=
  match a, b with
  | MO x, MO y => out_eqb x y
  | MP p k, MP p' k' => (p =? p') && (k =? k')
  | _, _ => false
  end.

(* the model agrees with the implementation on every step of the schedule *)
Fixpoint agree (s : st) (l : list (mop * mout)) : bool :=
  match l with
  | [] => true
  | (o, r) :: t => let '(s1, r1, ok) := mstep s o in ok && mout_eqb r1 r && agree s1 t
  end.

(* the observed trace in the alphabet of C09_check (a release is one Work step carrying the only
   worker event the property speaks about: a flush that failed for lack of disk space) *)
Definition micro (x : mop * mout) : op * out :=
  match x with
  | (C o, MO r) => (o, r)
  | (C o, MP _ _) => (o, OBad)
  | (MW ns, _) | (MWC ns, _) =>
      (Work (isSome ns), OW (match ns with Some k => WNoSpace k | None => WNone end))
  end.

Fixpoint idx_filter (f : case -> bool) (i : N) (cs : list case) : list N :=
  match cs with
  | [] => []
  | c :: t => if f c then i :: idx_filter f (N.succ i) t else idx_filter f (N.succ i) t
  end.

Definition mismatches (cs : list case) : list N :=
  idx_filter (fun c => negb (agree init (c_steps c))) 0%N cs.
Definition violations (cs : list case) : list N :=
  idx_filter (fun c => let m := map micro (c_steps c) in
                       negb (C09_check (map fst m) (map snd m))) 0%N cs.
