(* evaluators used by generated cases files; depends on the model only *)
From Coq Require Import List NArith Bool.
From K.Model Require Export C37.
Import ListNotations.
Local Open Scope N_scope.

(* byte strings are written by the driver as one hexadecimal numeral with a leading 01 sentinel *)
Fixpoint unpack (fuel : nat) (n : N) (acc : str) : str :=
  match fuel with
  | O => acc
  | S f => if n <=? 1 then acc else unpack f (n / 256) (n mod 256 :: acc)
  end.
Definition s (n : N) : str := unpack (N.to_nat (N.size n)) n [].

Record case := mkcase { c_cfg : cfg; c_ops : list op; c_obs : list out }.

Fixpoint idx_filter (f : case -> bool) (i : N) (cs : list case) : list N :=
  match cs with
  | [] => []
  | c :: t => if f c then i :: idx_filter f (N.succ i) t else idx_filter f (N.succ i) t
  end.

Definition mismatches (cs : list case) : list N :=
  idx_filter (fun c => negb (outs_match (snd (run (c_cfg c) (init (c_cfg c)) (c_ops c))) (c_obs c))) 0%N cs.
Definition violations (cs : list case) : list N :=
  idx_filter (fun c => negb (C37_check (c_cfg c) (c_ops c) (c_obs c))) 0%N cs.
