(* evaluators used by generated cases files; depends on the model only.
   Case format (harness/c22/c22.go): lists of pool indices are written as one hexadecimal
   numeral, digit = index+1 (at most 15 nodes), to keep the generated files small. *)
From Coq Require Import List NArith ZArith Bool.
From K.Model Require Export C22.
Import ListNotations.
Local Open Scope N_scope.

Record cset := mks { s_u : N; s_u2 : N; s_topn : N; s_xs : N }.
Record ckey := mkk { k_hex : bool; k_scores : list N; k_obs : list (list N) }.
Record case := mkcase { c_weights : list Z; c_sets : list cset; c_keys : list ckey }.

Fixpoint undig_aux (fuel : nat) (x : N) (acc : list N) : list N :=
  match fuel with
  | O => acc
  | S f => if x =? 0 then acc else undig_aux f (x / 16) ((x mod 16 - 1) :: acc)
  end.
(* a digit 0 (label unknown to the harness) decodes to 99, which is no pool index *)
Definition undig (x : N) : list N :=
  map (fun d => d) (undig_aux 20 x []).
Definition has_zero_digit (x : N) : bool :=
  (fix go (fuel : nat) (x : N) : bool :=
     match fuel with O => false | S f => if x =? 0 then false else (x mod 16 =? 0) || go f (x / 16) end) 20%nat x.
Definition undig_l (x : N) : list N := if has_zero_digit x then [99] else undig x.

Definition nodes_of_digits (ws : list Z) (x : N) : list node :=
  map (fun i => mknode i (nth (N.to_nat i) ws (-1)%Z)) (undig_l x).

(* [full; perm; top; rem x1; add x1; rem x2; add x2; ...] *)
Fixpoint pair_up (xs : list N) (l : list N) : list (N * list N * list N) :=
  match xs, l with
  | x :: xs', r :: a :: l' => (x, undig_l r, undig_l a) :: pair_up xs' l'
  | _, _ => []
  end.
Definition decode_obs (xs : list N) (l : list N) : obs :=
  match l with
  | f :: p :: t :: rest => mkobs (undig_l f) (undig_l p) (undig_l t) (pair_up xs rest)
  | _ => mkobs [99] [99] [99] []
  end.

(* evaluate f on every (key, set) pair of a case; all must hold *)
Definition for_pairs (c : case) (f : bool -> list node -> list node -> nat -> list N -> row -> obs -> bool) : bool :=
  forallb (fun k =>
    Nat.eqb (length (k_obs k)) (length (c_sets c)) &&
    forallb (fun so => let '(s, o) := so in
       let xs := undig_l (s_xs s) in
       f (k_hex k) (nodes_of_digits (c_weights c) (s_u s)) (nodes_of_digits (c_weights c) (s_u2 s))
         (N.to_nat (s_topn s)) xs (k_scores k) (decode_obs xs o))
      (combine (c_sets c) (k_obs k)))
    (c_keys c).

(* model = implementation, compared where the theorems speak: hex key, distinct scores *)
Definition case_agrees (c : case) : bool :=
  for_pairs c (fun hex U U' topn xs r o =>
    if hex && dom U U' xs && C22_tie_free U r then obs_eqb (observe U U' topn xs r) o else true).
Definition case_holds (c : case) : bool :=
  for_pairs c C22_check.

Fixpoint idx_filter (f : case -> bool) (i : N) (cs : list case) : list N :=
  match cs with
  | [] => []
  | c :: t => if f c then i :: idx_filter f (N.succ i) t else idx_filter f (N.succ i) t
  end.

Definition mismatches (cs : list case) : list N := idx_filter (fun c => negb (case_agrees c)) 0 cs.
Definition violations (cs : list case) : list N := idx_filter (fun c => negb (case_holds c)) 0 cs.
