(* evaluators used by generated cases files; depends on the model only.
   Payloads are content identifiers (nat): the harness numbers the blob's pieces 0..n-1 and every
   other payload it saw (sent by the corrupting peer, found in a cache) n, n+1, ...; the table
   carries each identifier's real length and real CRC-32, so `plen` and `sum` are table lookups:
   Coq never computes a checksum, and two identifiers are equal iff the byte strings were. *)
From Coq Require Import List NArith Bool Arith.
From K.Model Require Export C19.
Import ListNotations.

Record case := mkcase {
  k_tab : list (nat * (N * N));              (* payload id |-> (length, CRC-32) *)
  k_cfg : cfg nat;                           (* blob = [0; ...; n-1], metainfo sums, limits *)
  k_peers : list (kind * bool * list nat);   (* kind, origin flag, pieces verified at the start *)
  k_trace : list (label nat);                (* the label sequence that explains the observed events *)
  k_bad : list nat;                          (* payloads sent by the corrupting peer / found besides the blob's *)
  k_recv : list (nat * nat * nat);           (* receive_piece events: agent, sender, piece *)
  k_obs : list (pobs nat);                   (* per peer: result, final verified set, cache *)
  k_expect : bool }.                         (* fault-free swarm: must converge *)

Fixpoint lookup (t : list (nat * (N * N))) (b : nat) : N * N :=
  match t with
  | [] => (0%N, 0%N)
  | (k, v) :: r => if Nat.eqb k b then v else lookup r b
  end.
Definition plen_of (c : case) (b : nat) : N := fst (lookup (k_tab c) b).
Definition sum_of (c : case) (b : nat) : N := snd (lookup (k_tab c) b).

Fixpoint idx_filter (f : case -> bool) (i : N) (cs : list case) : list N :=
  match cs with
  | [] => []
  | c :: t => if f c then i :: idx_filter f (N.succ i) t else idx_filter f (N.succ i) t
  end.

Definition opt_eqb (a b : option nat) : bool :=
  match a, b with Some x, Some y => Nat.eqb x y | None, None => true | _, _ => false end.

(* the model's view of one peer at the end against the implementation's *)
Definition peer_agrees (c : case) (s : state nat) (k : nat) (o : pobs nat) : bool :=
  match o_kind nat o with
  | Corrupting => true
  | Honest =>
      let n := npieces nat (k_cfg c) in
      let bits := filter (fun i => verified nat s k i) (seq 0 n) in
      set_eqb bits (o_bits nat o)
      && Bool.eqb (completed nat s k) (o_cached nat o)
      && (if o_cached nat o
          then list_eqb opt_eqb (file nat (k_cfg c) s k) (map Some (o_content nat o))
               || negb (completed nat s k)
          else true)
  end.

Fixpoint peers_agree (c : case) (s : state nat) (k : nat) (os : list (pobs nat)) : bool :=
  match os with
  | [] => true
  | o :: t => peer_agrees c s k o && peers_agree c s (S k) t
  end.

Definition all_ok (os : list (pobs nat)) : bool :=
  forallb (fun o => match o_result nat o with RkOk | RkNone => true | _ => false end) os.

Definition model_agrees (c : case) : bool :=
  let g := k_cfg c in
  let s0 := init nat g (k_peers c) in
  Nat.eqb (disabled nat (plen_of c) (sum_of c) g s0 (k_trace c)) 0
  && peers_agree c (run nat (plen_of c) (sum_of c) g s0 (k_trace c)) 0 (k_obs c)
  && (if k_expect c then all_ok (k_obs c) else true).

Definition mismatches (cs : list case) : list N := idx_filter (fun c => negb (model_agrees c)) 0%N cs.
Definition violations (cs : list case) : list N :=
  idx_filter (fun c => negb (C19_check nat Nat.eqb (k_cfg c) (k_bad c) (k_recv c) (k_obs c))) 0%N cs.
