(* evaluators used by generated cases files; depends on the model only *)
From Coq Require Import List NArith Bool.
From K.Model Require Export C31.
Import ListNotations.

(* c_fx: the case was recorded on a tree with the look-up repair (always false at HEAD) *)
Record case := mkcase { c_fx : bool; c_ops : list op; c_obs : list res }.

Fixpoint idx_filter (f : case -> bool) (i : N) (cs : list case) : list N :=
  match cs with
  | [] => []
  | c :: t => if f c then i :: idx_filter f (N.succ i) t else idx_filter f (N.succ i) t
  end.

Definition mismatches (cs : list case) : list N :=
  idx_filter (fun c => negb (ress_eqb (snd (run (c_fx c) init (c_ops c))) (c_obs c))) 0%N cs.
Definition violations (cs : list case) : list N :=
  idx_filter (fun c => negb (C31_check (c_ops c) (c_obs c))) 0%N cs.
