(* evaluators used by generated cases files; depends on the model only *)
From Coq Require Import List NArith Bool.
From K.Model Require Export C33.
Import ListNotations.

(* c_env = the scripted environment the real executor ran against; c_tr / c_res = the requests
   the environment received (with its answers) and whether Exec returned nil *)
(* c_ups = per request that reached a real origin: (status answered, upload accepted during it) *)
Record case := mkcase { c_env : env; c_tr : list ev; c_res : result; c_ups : list (N * bool) }.

Fixpoint idx_filter (f : case -> bool) (i : N) (cs : list case) : list N :=
  match cs with
  | [] => []
  | c :: t => if f c then i :: idx_filter f (N.succ i) t else idx_filter f (N.succ i) t
  end.

Definition agrees (c : case) : bool :=
  let '(t, r) := exec (c_env c) in evs_eqb t (c_tr c) && result_eqb r (c_res c).

Definition mismatches (cs : list case) : list N := idx_filter (fun c => negb (agrees c)) 0%N cs.
Definition violations (cs : list case) : list N :=
  idx_filter (fun c => negb (C33_check (c_env c) (c_tr c) (c_res c) && C33_uploads_check (c_ups c))) 0%N cs.

(* short names used by the driver *)
Notation C := RCode (only parsing).
Notation NET := RNet (only parsing).
Notation O := mkorigin (only parsing).
Notation D := mkdep (only parsing).
