(* evaluators used by generated cases files; depends on the model only *)
From Coq Require Import List NArith Bool.
From K.Model Require Export C32.
Import ListNotations.

Record case := mkcase { c_cfg : cfg; c_ops : list op; c_obs : list out }.

Fixpoint idx_filter (f : case -> bool) (i : N) (cs : list case) : list N :=
  match cs with
  | [] => []
  | c :: t => if f c then i :: idx_filter f (N.succ i) t else idx_filter f (N.succ i) t
  end.

Definition mismatches (cs : list case) : list N :=
  idx_filter (fun c => negb (outs_eqb (snd (run (c_cfg c) init (c_ops c))) (c_obs c))) 0%N cs.
Definition violations (cs : list case) : list N :=
  idx_filter (fun c => negb (C32_check (c_cfg c) (c_ops c) (c_obs c))) 0%N cs.
