(* evaluators used by generated cases files; depends on the model only *)
From Coq Require Import List NArith Bool.
From K.Model Require Export C32.
Import ListNotations.

Record case := mkcase { c_cfg : cfg; c_ops : list op; c_obs : list out }.

Fixpoint idx_filter (f : case -> bool) (i : N) (cs : list case) : list N :=
  match cs with
  | [] => []
  | c :: t => if f c then i :: idx_filter f (N.succ i) t else idx_filter f (N.succ i) t
  end.

(* compact constructors for the generated case text *)
Definition P (t d : N) (r : bool) (deps : list ans) (f : fsf) (ex : list eans) (nb rep repok : bool) : op :=
  Put (mkput t d r deps f ex nb rep repok).
Definition O (r : res) (d : option N) (nb rep : list N) (dk : option N) (b : option content) (tk : option N) : out :=
  mkout r d nb rep (mksnap dk b tk).
Definition E (f : bool) (u : upans) : eans := mkea f u.

Definition mismatches (cs : list case) : list N :=
  idx_filter (fun c => negb (outs_eqb (snd (run (c_cfg c) init (c_ops c))) (c_obs c))) 0%N cs.
Definition violations (cs : list case) : list N :=
  idx_filter (fun c => negb (C32_check (c_cfg c) (c_ops c) (c_obs c))) 0%N cs.
