(* evaluators used by generated cases files; depends on the model only *)
From Coq Require Import List NArith Bool Arith.
From K.Model Require Export C04.
Import ListNotations.

(* one case = one download history on the real agent storage stack: configuration, operations (with
   the orders the implementation chose), the observation after every operation, the normalised
   mutating-call trace, and for every crash point (prefix of the trace, 0..n) the recovery script the
   driver ran on the replayed directory with the REAL code's observation after each of its steps.
   [k_rle]: per-crash-point scripts, run-length encoded. *)
Definition script := list (op * obs).
Record case := mkcase { k_cfg : cfg; k_ops : list op; k_obs : list obs; k_trace : list call; k_rle : list (nat * script) }.
Definition k_recs (k : case) : list script := flat_map (fun p => repeat (snd p) (fst p)) (k_rle k).

(* the harness prints the configuration of the code under test: both fixes applied *)
Definition mkc (blob : bytes) (pl wps : nat) (mi lat : bytes) : cfg := mkcfg blob pl wps mi lat true true.

Definition out_eqb (a b : out) : bool :=
  match a, b with
  | OOk, OOk | OErr, OErr | OPieceComplete, OPieceComplete | ONoTorrent, ONoTorrent => true
  | _, _ => false
  end.

Fixpoint list_eqb {A} (e : A -> A -> bool) (a b : list A) : bool :=
  match a, b with
  | [], [] => true
  | x :: a', y :: b' => e x y && list_eqb e a' b'
  | _, _ => false
  end.

Definition obs_eqb (a b : obs) : bool :=
  out_eqb (o_out a) (o_out b) && Bool.eqb (o_complete a) (o_complete b)
  && list_eqb opt_bytes_eqb (o_pieces a) (o_pieces b) && opt_bytes_eqb (o_cache a) (o_cache b).

Definition call_eqb (a b : call) : bool :=
  match a, b with
  | CMkdir x l, CMkdir y m => area_eqb x y && (l =? m)
  | COpen x f, COpen y g => area_eqb x y && fname_eqb f g
  | CWrite x f o d, CWrite y g p e => area_eqb x y && fname_eqb f g && (o =? p) && bytes_eqb d e
  | CTrunc x f n, CTrunc y g m => area_eqb x y && fname_eqb f g && (n =? m)
  | CRename, CRename => true
  | CUnlink x f, CUnlink y g => area_eqb x y && fname_eqb f g
  | CRmdir x, CRmdir y => area_eqb x y
  | _, _ => false
  end.

(* the model's observations of a script run by a fresh process on disk s *)
Definition model_script (c : cfg) (s : fs) (sc : script) : list obs := snd (run c (start s) (map fst sc)).
Definition script_agrees (c : cfg) (s : fs) (sc : script) : bool :=
  list_eqb obs_eqb (model_script c s sc) (map snd sc).

(* crash point k = the first k calls of the trace applied to the empty disk; one script per point *)
Fixpoint recs_agree (c : cfg) (s : fs) (tr : list call) (recs : list script) : bool :=
  match recs with
  | [] => false
  | sc :: recs' =>
      script_agrees c s sc &&
      match tr with
      | [] => match recs' with [] => true | _ => false end
      | x :: t => recs_agree c (apply_call s x) t recs'
      end
  end.

(* correspondence (1): per-operation observations and the normalised trace of the real code = the
   model program's; (2): at every crash prefix the real recovery's observations = the model's;
   and the model's own trace keeps the disk invariant at every crash point (sanity) *)
Definition agrees (k : case) : bool :=
  let c := k_cfg k in
  let '(w, ol) := run c (start fs0) (k_ops k) in
  list_eqb obs_eqb ol (k_obs k)
  && list_eqb call_eqb (w_tr w) (k_trace k)
  && all_DI c fs0 (w_tr w)
  && recs_agree c fs0 (w_tr w) (k_recs k).

Fixpoint idx_filter (f : case -> bool) (i : N) (cs : list case) : list N :=
  match cs with
  | [] => []
  | c :: t => if f c then i :: idx_filter f (N.succ i) t else idx_filter f (N.succ i) t
  end.

Definition mismatches (cs : list case) : list N := idx_filter (fun k => negb (agrees k)) 0%N cs.
(* the property oracle on the implementation's observations only *)
Definition violations (cs : list case) : list N :=
  idx_filter (fun k => negb (wf_cfg (k_cfg k) && C04_check (k_cfg k) (k_obs k) (k_recs k))) 0%N cs.

(* debugging aids *)
Fixpoint first_diff {A} (e : A -> A -> bool) (i : nat) (a b : list A) : option nat :=
  match a, b with
  | [], [] => None
  | x :: a', y :: b' => if e x y then first_diff e (S i) a' b' else Some i
  | _, _ => Some i
  end.
Fixpoint recs_first_diff (c : cfg) (s : fs) (tr : list call) (recs : list script) (i : nat) : option nat :=
  match recs with
  | [] => Some i
  | sc :: recs' =>
      if script_agrees c s sc then
        match tr with
        | [] => match recs' with [] => None | _ => Some (S i) end
        | x :: t => recs_first_diff c (apply_call s x) t recs' (S i)
        end
      else Some i
  end.
