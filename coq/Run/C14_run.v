(* evaluators used by generated cases files; depends on the model only *)
From Coq Require Import List NArith ZArith Bool.
From K.Model Require Export C14.
Import ListNotations.

Inductive case :=
| mkcase (g : guards)       (* which variant of the code the observations are compared with (gfixed on every run) *)
         (t : torrent) (have : list bool) (bfull : bool) (hs : hshake) (msgs : list wmsg) (o : obs)
| mkscase (guard : bool)    (* incoming connections at a real scheduler: attempts, observed results *)
          (atts : list sattempt) (o : list Z).

Fixpoint idx_filter (f : case -> bool) (i : N) (cs : list case) : list N :=
  match cs with
  | [] => []
  | c :: t => if f c then i :: idx_filter f (N.succ i) t else idx_filter f (N.succ i) t
  end.

Definition mismatch (c : case) : bool :=
  match c with
  | mkcase g t have bfull hs msgs o => negb (obs_eqb (run_case g t have bfull hs msgs) o)
  | mkscase guard atts o => negb (list_eqb Z.eqb (snd (sched_run guard sinit atts)) o)
  end.
Definition violation (c : case) : bool :=
  match c with
  | mkcase g t have bfull hs msgs o => negb (C14_check t have bfull hs msgs o)
  | mkscase guard atts o => negb (C14_sched_check atts o)
  end.

Definition mismatches (cs : list case) : list N := idx_filter mismatch 0%N cs.
Definition violations (cs : list case) : list N := idx_filter violation 0%N cs.
