(* evaluators used by generated cases files; depends on the model only *)
From Coq Require Import List NArith ZArith Bool.
From K.Model Require Export C14.
Import ListNotations.

Record case := mkcase {
  c_g : guards;             (* which variant of the code the observations are compared with (gfixed on every run) *)
  c_t : torrent; c_have : list bool; c_bfull : bool;
  c_hs : hshake; c_msgs : list wmsg;
  c_obs : obs }.

Fixpoint idx_filter (f : case -> bool) (i : N) (cs : list case) : list N :=
  match cs with
  | [] => []
  | c :: t => if f c then i :: idx_filter f (N.succ i) t else idx_filter f (N.succ i) t
  end.

Definition mismatches (cs : list case) : list N :=
  idx_filter (fun c => negb (obs_eqb (run_case (c_g c) (c_t c) (c_have c) (c_bfull c) (c_hs c) (c_msgs c)) (c_obs c))) 0%N cs.
Definition violations (cs : list case) : list N :=
  idx_filter (fun c => negb (C14_check (c_t c) (c_have c) (c_bfull c) (c_hs c) (c_msgs c) (c_obs c))) 0%N cs.
