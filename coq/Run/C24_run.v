(* evaluators used by generated cases files; depends on the model only *)
From Coq Require Import List NArith ZArith Bool.
From K.Model Require Export C24.
Import ListNotations.

(* raw configuration handed to NewPassiveFilter, the history, the implementation's outputs *)
Record case := mkcase { c_cfg : config; c_ops : list op; c_obs : list out }.

Fixpoint idx_filter (f : case -> bool) (i : N) (cs : list case) : list N :=
  match cs with
  | [] => []
  | c :: t => if f c then i :: idx_filter f (N.succ i) t else idx_filter f (N.succ i) t
  end.

(* the model's outputs differ from the implementation's (timelines with a clock that moves
   backwards are outside the property and are not compared) *)
Definition mismatches (cs : list case) : list N :=
  idx_filter (fun c => monotone (c_ops c) && negb (outs_eqb (snd (exec (c_cfg c) (c_ops c))) (c_obs c))) 0%N cs.
Definition violations (cs : list case) : list N :=
  idx_filter (fun c => negb (C24_check (c_cfg c) (c_ops c) (c_obs c))) 0%N cs.
