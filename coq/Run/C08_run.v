(* evaluators used by generated cases files; depends on the model only *)
From Coq Require Import List NArith ZArith Bool.
From K.Model Require Export C08.
Import ListNotations.

(* a sequential history with the implementation's observations, or (thorough tier) the results one
   reader goroutine saw on one handle while other goroutines forced evictions *)
Inductive case :=
| mkcase (cap : N) (ops : list op) (obs : list (out * snap))
| mkrace (fill : N) (l : list robs).

Fixpoint idx_filter (f : case -> bool) (i : N) (cs : list case) : list N :=
  match cs with
  | [] => []
  | c :: t => if f c then i :: idx_filter f (N.succ i) t else idx_filter f (N.succ i) t
  end.

Definition mismatches (cs : list case) : list N :=
  idx_filter (fun c => match c with
                       | mkcase cap ops obs => negb (obs_eqb (C08_impl cap ops) obs)
                       | mkrace _ _ => false
                       end) 0%N cs.
Definition violations (cs : list case) : list N :=
  idx_filter (fun c => match c with
                       | mkcase cap ops obs => negb (C08_check cap ops obs)
                       | mkrace fill l => negb (race_ok fill false l)
                       end) 0%N cs.
