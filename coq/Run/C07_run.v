(* evaluators used by generated cases files; depends on the model only *)
From Coq Require Import List NArith ZArith Bool.
From K.Model Require Export C07.
Import ListNotations.

Record case := mkcase { c_cap : N; c_ops : list op; c_obs : list (out * snap) }.

Fixpoint idx_filter (f : case -> bool) (i : N) (cs : list case) : list N :=
  match cs with
  | [] => []
  | c :: t => if f c then i :: idx_filter f (N.succ i) t else idx_filter f (N.succ i) t
  end.

Definition mismatches (cs : list case) : list N :=
  idx_filter (fun c => negb (obs_eqb (C07_impl (c_cap c) (c_ops c)) (c_obs c))) 0%N cs.
Definition violations (cs : list case) : list N :=
  idx_filter (fun c => negb (C07_check (c_cap c) (c_ops c) (c_obs c))) 0%N cs.
