(* evaluators used by generated cases files; depends on the model only *)
From Coq Require Import String Ascii.
From Coq Require Import List NArith ZArith Bool Uint63.
From K.Model Require Export C02.
Import ListNotations.
Local Open Scope N_scope.

(* compact literals in cases files (primitive integers are one node each, so a cases file is
   parsed and type-checked quickly): xb len [i1; i2; ...] = the byte string of length len whose
   bytes are the big-endian 7-byte groups i1, i2, ... (the last group holds the remaining
   len mod 7 bytes, right-aligned); ns [i1; ...] = a list of numbers *)
Definition int_N (i : int) : N := Z.to_N (Uint63.to_Z i).
Fixpoint be_bytes (n : nat) (v : N) (acc : list N) : list N :=
  match n with O => acc | S k => be_bytes k (N.shiftr v 8) (N.land v 255 :: acc) end.
Fixpoint xb (len : N) (l : list int) : list N :=
  match l with
  | [] => []
  | i :: t => let k := N.min 7 len in be_bytes (N.to_nat k) (int_N i) (xb (len - k) t)
  end.
Definition ns (l : list int) : list N := map int_N l.

(* the model instantiated with the executable CRC-32 and SHA-1 *)
Definition model_obs (c : cin) : cobs := case_model crc32 sha1_bytes c.

Record case := mkcase { c_in : cin; c_obs : cobs }.

Fixpoint idx_filter (f : case -> bool) (i : N) (cs : list case) : list N :=
  match cs with
  | [] => []
  | c :: t => if f c then i :: idx_filter f (N.succ i) t else idx_filter f (N.succ i) t
  end.

Definition mismatches (cs : list case) : list N :=
  idx_filter (fun c => negb (cobs_eqb (model_obs (c_in c)) (c_obs c))) 0%N cs.
Definition violations (cs : list case) : list N :=
  idx_filter (fun c => negb (C02_check crc32 sha1_bytes (c_in c) (c_obs c))) 0%N cs.
