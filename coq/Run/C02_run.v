(* evaluators used by generated cases files; depends on the model only *)
From Coq Require Import String Ascii.
From Coq Require Import List NArith ZArith Bool.
From K.Model Require Export C02.
Import ListNotations.
Local Open Scope N_scope.

(* compact literals in cases files: s "text" = character codes, x "00ff" = bytes *)
Definition s := codes.
Definition x := unhex.

(* the model instantiated with the executable CRC-32 and SHA-1 *)
Definition model_obs (c : cin) : cobs := case_model crc32 sha1_bytes c.

Record case := mkcase { c_in : cin; c_obs : cobs }.

Fixpoint idx_filter (f : case -> bool) (i : N) (cs : list case) : list N :=
  match cs with
  | [] => []
  | c :: t => if f c then i :: idx_filter f (N.succ i) t else idx_filter f (N.succ i) t
  end.

Definition mismatches (cs : list case) : list N :=
  idx_filter (fun c => negb (cobs_eqb (model_obs (c_in c)) (c_obs c))) 0%N cs.
Definition violations (cs : list case) : list N :=
  idx_filter (fun c => negb (C02_check crc32 (c_in c) (c_obs c))) 0%N cs.
