(* evaluators used by generated cases files; depends on the model only *)
From Coq Require Import List NArith ZArith Bool.
From K.Model Require Export C13.
Import ListNotations.

(* the model evaluated is the FIXED code (fixes/C13_size_mismatch.patch applied) *)
Inductive case :=
| CaseC (max : N) (ttl : Z) (maxretry : N) (ops : list op) (obs : list obs_t)
| CaseL (size ttl : Z) (ops : list (lop * Z)) (obs : list lobs_t)
(* lock-convoy pairs: a sequential prefix, then two calls started concurrently *)
| CaseCP (max : N) (pre : list op) (preobs : list obs_t) (a b : op) (ra rb : out) (fin : N * list (N * N))
| CaseLP (size ttl : Z) (pre : list (lop * Z)) (preobs : list lobs_t) (a b : lop) (at_ : Z) (ra rb : out) (fin : N * list N).

Fixpoint idx_filter (f : case -> bool) (i : N) (cs : list case) : list N :=
  match cs with
  | [] => []
  | c :: t => if f c then i :: idx_filter f (N.succ i) t else idx_filter f (N.succ i) t
  end.

Definition agrees (c : case) : bool :=
  match c with
  | CaseC max ttl mr ops obs => obss_eqb (snd (run true (init max ttl mr) ops)) obs
  | CaseL size ttl ops obs => lobss_eqb (snd (lrun (linit size ttl) ops)) obs
  | CaseCP max pre preobs a b ra rb fin => pair_agrees max pre preobs a b ra rb fin
  | CaseLP size ttl pre preobs a b at_ ra rb fin => lpair_agrees size ttl pre preobs a b at_ ra rb fin
  end.
Definition holds (c : case) : bool :=
  match c with
  | CaseC max ttl mr ops obs => C13_cache_check max ops obs
  | CaseL size ttl ops obs => C13_lru_check size ttl ops obs
  | CaseCP max pre preobs a b ra rb fin => C13_pair_check max pre preobs a b ra rb fin
  | CaseLP size ttl pre preobs a b at_ ra rb fin => C13_lru_pair_check size ttl pre preobs a b at_ fin
  end.

Definition mismatches (cs : list case) : list N := idx_filter (fun c => negb (agrees c)) 0%N cs.
Definition violations (cs : list case) : list N := idx_filter (fun c => negb (holds c)) 0%N cs.
