(* evaluators used by generated cases files; depends on the model only *)
From Coq Require Import List NArith ZArith Bool.
From K.Model Require Export C13.
Import ListNotations.

(* the model evaluated is the FIXED code (fixes/C13_size_mismatch.patch applied) *)
Inductive case :=
| CaseC (max : N) (ttl : Z) (maxretry : N) (ops : list op) (obs : list obs_t)
| CaseL (size ttl : Z) (ops : list (lop * Z)) (obs : list lobs_t).

Fixpoint idx_filter (f : case -> bool) (i : N) (cs : list case) : list N :=
  match cs with
  | [] => []
  | c :: t => if f c then i :: idx_filter f (N.succ i) t else idx_filter f (N.succ i) t
  end.

Definition agrees (c : case) : bool :=
  match c with
  | CaseC max ttl mr ops obs => obss_eqb (snd (run true (init max ttl mr) ops)) obs
  | CaseL size ttl ops obs => lobss_eqb (snd (lrun (linit size ttl) ops)) obs
  end.
Definition holds (c : case) : bool :=
  match c with
  | CaseC max ttl mr ops obs => C13_cache_check max ops obs
  | CaseL size ttl ops obs => C13_lru_check size ttl ops obs
  end.

Definition mismatches (cs : list case) : list N := idx_filter (fun c => negb (agrees c)) 0%N cs.
Definition violations (cs : list case) : list N := idx_filter (fun c => negb (holds c)) 0%N cs.
