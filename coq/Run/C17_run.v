(* evaluators used by generated cases files; depends on the model only *)
From Coq Require Import List NArith Bool.
From K.Model Require Export C17.
Import ListNotations.

Record case := mkcase {
  c_cfg : cfg; c_known : list N; c_ops : list op;
  c_obs : obs;             (* per call: the result Download returned, None = never returned *)
  c_stuck : bool;          (* the event loop blocked inside an apply *)
  c_surplus : list (N * N) (* per call: results left in its channel after it returned *)
}.

Fixpoint idx_filter (f : case -> bool) (i : N) (cs : list case) : list N :=
  match cs with
  | [] => []
  | c :: t => if f c then i :: idx_filter f (N.succ i) t else idx_filter f (N.succ i) t
  end.

Definition mismatches (cs : list case) : list N :=
  idx_filter (fun c => negb (obs_eqb (model_obs (run (c_cfg c) (c_known c) (c_ops c)) (c_ops c)) (c_obs c))
                       || negb (surplus_eqb (model_surplus (run (c_cfg c) (c_known c) (c_ops c)) (c_ops c)) (c_surplus c))
                       || c_stuck c) 0%N cs.
Definition violations (cs : list case) : list N :=
  idx_filter (fun c => negb (C17_check (c_cfg c) (c_known c) (c_ops c) (c_obs c))
                       || negb (no_surplus (c_surplus c)) || c_stuck c) 0%N cs.
(* same evaluation against the pre-fix model (used once to confirm the defects on the unfixed tree) *)
Definition mismatches_prefix (cs : list case) : list N :=
  idx_filter (fun c => negb (obs_eqb (model_obs (run_prefix (c_cfg c) (c_known c) (c_ops c)) (c_ops c)) (c_obs c))) 0%N cs.
