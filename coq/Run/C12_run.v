(* evaluators used by generated cases files; depends on the model only *)
From Coq Require Import List NArith ZArith Bool.
From K.Model Require Export C12.
Import ListNotations.

(* one case = one operation history applied by the driver to
     kind 0: a fresh BufferReadWriter(cap), a fresh memory.File(cap) and an empty os.File
     kind 1: NewBufferFileReader(init) and a read-only os.File holding init
     kind 2: two handles on one memory.File blob (Store.Create, Store.Open) and one os.File opened
             twice; c_hs names the handle of each operation
   with the outputs each of them produced.  To keep the generated files small the driver writes
   `None` for an in-memory observation list that is identical to the os.File's list. *)
Record case := mkcase {
  c_kind : N; c_cap : N; c_init : list N; c_hs : list bool; c_ops : list op;
  c_buf_ : option (list out); c_mem_ : option (list out); c_rdr_ : option (list out); c_os : list out }.

Definition same_or (o : option (list out)) (d : list out) : list out :=
  match o with Some l => l | None => d end.
Definition c_buf (c : case) := same_or (c_buf_ c) (c_os c).
Definition c_mem (c : case) := same_or (c_mem_ c) (c_os c).
Definition c_rdr (c : case) := same_or (c_rdr_ c) (c_os c).

Fixpoint idx_filter (f : case -> bool) (i : N) (cs : list case) : list N :=
  match cs with
  | [] => []
  | c :: t => if f c then i :: idx_filter f (N.succ i) t else idx_filter f (N.succ i) t
  end.

(* the in-memory implementations are compared with their models only inside the scope of the
   property (up to the first seek outside the written extent); the file specification is
   compared with the real os.File on the whole history *)
Definition case_mismatch2 (c : case) : bool :=
  let ops := combine (c_hs c) (c_ops c) in
  let k := scope2_from pinit2 ops in
  negb (Nat.eqb (length (c_hs c)) (length (c_ops c))) ||
  negb (outs_eqb (snd (prun2 pinit2 ops)) (c_os c)) ||
  negb (outs_eqb (firstn k (snd (mrun2 true (minit2 (N.to_nat (c_cap c))) ops))) (firstn k (c_mem c))).

Definition case_mismatch (c : case) : bool :=
  if (c_kind c =? 2)%N then case_mismatch2 c else
  let ops := c_ops c in
  let k := scope_from (pinit (c_init c)) ops in
  let cap := N.to_nat (c_cap c) in
  negb (outs_eqb (snd (prun (pinit (c_init c)) ops)) (c_os c)) ||
  (if (c_kind c =? 0)%N then
     negb (outs_eqb (firstn k (snd (brun true (binit cap) ops))) (firstn k (c_buf c))) ||
     negb (outs_eqb (firstn k (snd (mrun true (minit cap) ops))) (firstn k (c_mem c)))
   else
     negb (outs_eqb (firstn k (snd (rrun (rinit (c_init c)) ops))) (firstn k (c_rdr c)))).

Definition case_violation (c : case) : bool :=
  if (c_kind c =? 2)%N then negb (C12_check2 (combine (c_hs c) (c_ops c)) (c_mem c) (c_os c)) else
  if (c_kind c =? 0)%N then
    negb (C12_check (c_init c) (c_ops c) (c_buf c) (c_os c)) ||
    negb (C12_check (c_init c) (c_ops c) (c_mem c) (c_os c))
  else negb (C12_check (c_init c) (c_ops c) (c_rdr c) (c_os c)).

Definition mismatches (cs : list case) : list N := idx_filter case_mismatch 0%N cs.
Definition violations (cs : list case) : list N := idx_filter case_violation 0%N cs.
