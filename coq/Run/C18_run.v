(* evaluators used by generated cases files; depends on the model only *)
From Coq Require Import List NArith Bool.
From K.Model Require Export C18.
Import ListNotations.

Record case := mkcase { c_seeding : bool; c_cfg : cfg; c_t0 : N; c_ops : list op; c_obs : list snap }.

Fixpoint idx_filter (f : case -> bool) (i : N) (cs : list case) : list N :=
  match cs with
  | [] => []
  | c :: t => if f c then i :: idx_filter f (N.succ i) t else idx_filter f (N.succ i) t
  end.

Definition mismatches (cs : list case) : list N :=
  idx_filter (fun c => negb (snaps_eqb (trace (c_cfg c) (init (c_seeding c) (c_cfg c) (c_t0 c)) (c_ops c)) (c_obs c))) 0%N cs.
Definition violations (cs : list case) : list N :=
  idx_filter (fun c => negb (C18_check (c_seeding c) (c_cfg c) (c_t0 c) (c_ops c) (c_obs c))) 0%N cs.
Definition mismatches_prefix (cs : list case) : list N :=
  idx_filter (fun c => negb (snaps_eqb (trace_gen false (c_cfg c) (init (c_seeding c) (c_cfg c) (c_t0 c)) (c_ops c)) (c_obs c))) 0%N cs.
