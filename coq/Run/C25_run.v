(* evaluators used by generated cases files; depends on the model only *)
From Coq Require Import List NArith ZArith Bool.
From K.Model Require Export C25.
Import ListNotations.

Record case := mkcase { c_in : input; c_out : output }.

Fixpoint idx_filter (f : case -> bool) (i : N) (cs : list case) : list N :=
  match cs with
  | [] => []
  | c :: t => if f c then i :: idx_filter f (N.succ i) t else idx_filter f (N.succ i) t
  end.

(* the model, run with the iteration order reconstructed from what the implementation showed
   (Proof/C25.v, recon_complete: this accepts every behaviour the model has under SOME legal
   order), does not reproduce the implementation's observables *)
Definition mismatches (cs : list case) : list N :=
  idx_filter (fun c => negb (agrees (c_in c) (c_out c))) 0%N cs.
Definition violations (cs : list case) : list N :=
  idx_filter (fun c => negb (C25_check (c_in c) (c_out c))) 0%N cs.
