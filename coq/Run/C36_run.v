(* evaluators used by generated cases files; depends on the model only *)
From Coq Require Import List NArith Bool.
From K.Model Require Export C36.
Import ListNotations.

Inductive case :=
(* real Pather: bp := BlobPath(name); NameFromBlobPath(bp) — observed (BlobPath result, NameFromBlobPath result) *)
| CRound (sch : scheme) (root name : str) (obp oname : res)
(* real Pather.NameFromBlobPath on an arbitrary (mutated) path *)
| CFrom (sch : scheme) (root path : str) (o : res)
(* real regexp.MustCompile(pat).FindStringSubmatch(input) against the model's engine *)
| CRegex (pat input : str) (o : rxres)
(* real path.Join / path.Clean / regexp.QuoteMeta against PathLib / quote_meta *)
| CJoin (elems : list str) (o : str)
| CClean (p o : str)
| CQuote (s o : str).

Fixpoint strs_eqb (a b : list str) : bool :=
  match a, b with
  | [], [] => true
  | x :: a', y :: b' => str_eqb x y && strs_eqb a' b'
  | _, _ => false
  end.

Definition rxres_eqb (a b : rxres) : bool :=
  match a, b with
  | RxPanic, RxPanic => true
  | RxNone, RxNone => true
  | RxSome w c, RxSome w' c' => str_eqb w w' && strs_eqb c c'
  | _, _ => false
  end.

Definition agrees (c : case) : bool :=
  match c with
  | CRound sch root name obp oname =>
      let '(mbp, mname) := roundtrip sch root name in res_eqb mbp obp && res_eqb mname oname
  | CFrom sch root p o => res_eqb (name_from_path sch root p) o
  | CRegex pat input o => rxres_eqb (rx_find pat input) o
  | CJoin elems o => str_eqb (join elems) o
  | CClean p o => str_eqb (clean p) o
  | CQuote s o => str_eqb (quote_meta s) o
  end.

Definition holds (c : case) : bool :=
  match c with
  | CRound sch root name obp oname => C36_check sch root name (obp, oname)
  | _ => true
  end.

Fixpoint idx_filter (f : case -> bool) (i : N) (cs : list case) : list N :=
  match cs with
  | [] => []
  | c :: t => if f c then i :: idx_filter f (N.succ i) t else idx_filter f (N.succ i) t
  end.

Definition mismatches (cs : list case) : list N := idx_filter (fun c => negb (agrees c)) 0%N cs.
Definition violations (cs : list case) : list N := idx_filter (fun c => negb (holds c)) 0%N cs.
