(* evaluators used by generated cases files; depends on the model only.
   Case format (harness/overlay/c21): a pool of at most 15 addresses 0..p-1; address lists are
   written as one hexadecimal numeral, digit = address+1.  A configuration is a ring history
   (New, then Refresh steps), each step = (members in the hash's node order, healthy set).
   A shard carries the real scores of the pool and, per configuration, what Locations returned:
   16*digits + 1 = the list, 2 = panic. *)
From Coq Require Import List NArith ZArith Bool.
From K.Model Require Export C21.
Import ListNotations.
Local Open Scope N_scope.

Record cconf := mkc { cf_max : Z; cf_steps : list (N * N) }.
Record cshard := mksh { sh_scores : list N; sh_obs : list N }.
Record case := mkcase { c_confs : list cconf; c_shards : list cshard }.

Fixpoint undig_aux (fuel : nat) (x : N) (acc : list N) : list N :=
  match fuel with
  | O => acc
  | S f => if x =? 0 then acc else undig_aux f (x / 16) ((x mod 16 - 1) :: acc)
  end.
Definition has_zero_digit (x : N) : bool :=
  (fix go (fuel : nat) (x : N) : bool :=
     match fuel with O => false | S f => if x =? 0 then false else (x mod 16 =? 0) || go f (x / 16) end) 20%nat x.
(* a digit 0 (an address unknown to the harness) decodes to 99, which is no pool index *)
Definition undig (x : N) : list N := if has_zero_digit x then [99] else undig_aux 20 x [].

Definition decode_res (v : N) : res :=
  match v mod 16 with
  | 1 => Locs (undig (v / 16))
  | 2 => Panic
  | _ => Fatal
  end.

Definition decode_steps (l : list (N * N)) : (list N * list N) * list (list N * list N) :=
  let d := map (fun s => (undig (fst s), undig (snd s))) l in
  match d with
  | [] => (([], []), [])
  | f :: t => (f, t)
  end.

Definition for_obs (c : case) (f : Z -> list N * list N -> list (list N * list N) -> row -> res -> bool) : bool :=
  forallb (fun sh =>
    Nat.eqb (length (sh_obs sh)) (length (c_confs c)) &&
    forallb (fun co => let '(cf, o) := co in
       let '(first, steps) := decode_steps (cf_steps cf) in
       f (cf_max cf) first steps (sh_scores sh) (decode_res o))
      (combine (c_confs c) (sh_obs sh)))
    (c_shards c).

(* model = implementation wherever the theorems speak: well-formed history, distinct scores *)
Definition case_agrees (c : case) : bool :=
  for_obs c (fun maxr first steps r o =>
    if history_wf first steps
       && tie_freeb N.ltb tscore r (member_nodes (fst (last_step first steps)))
    then res_eqb (locations_run maxr first steps r) o else true).
Definition case_holds (c : case) : bool := for_obs c C21_check.

Fixpoint idx_filter (f : case -> bool) (i : N) (cs : list case) : list N :=
  match cs with
  | [] => []
  | c :: t => if f c then i :: idx_filter f (N.succ i) t else idx_filter f (N.succ i) t
  end.

Definition mismatches (cs : list case) : list N := idx_filter (fun c => negb (case_agrees c)) 0 cs.
Definition violations (cs : list case) : list N := idx_filter (fun c => negb (case_holds c)) 0 cs.
