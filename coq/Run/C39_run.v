(* evaluators used by generated cases files; depends on the model only *)
From Coq Require Import List NArith ZArith Bool Ascii String.
From K.Model Require Export C39.
Import ListNotations.
Local Open Scope N_scope.

(* compact spelling of printable strings in cases files: (s "sha256:..."%string) *)
Definition s (x : string) : list N := map N_of_ascii (list_ascii_of_string x).

Fixpoint idx_filter (f : case -> bool) (i : N) (cs : list case) : list N :=
  match cs with
  | [] => []
  | c :: t => if f c then i :: idx_filter f (N.succ i) t else idx_filter f (N.succ i) t
  end.

(* Go maps have no order and hold each key once: remote bitfields are compared as sets.
   obs comes from a Go map (distinct keys); mdl may list one peer id twice when the message
   spelt it in two ways (upper / lower case), in which case Go keeps either entry. *)
Definition rb_sim (obs mdl : list (list N * bitset)) : bool :=
  forallb (fun o => existsb (fun m => leqb (fst o) (fst m) && bs_eqb (snd o) (snd m)) mdl) obs
  && forallb (fun m => existsb (fun o => leqb (fst o) (fst m)) obs) mdl
  && nodup_keys obs.
Definition hs_sim (obs mdl : hsk) : bool :=
  leqb (h_peer obs) (h_peer mdl) && dg_eqb (h_dig obs) (h_dig mdl) && leqb (h_ih obs) (h_ih mdl)
  && bs_eqb (h_bits obs) (h_bits mdl) && rb_sim (h_rb obs) (h_rb mdl) && leqb (h_ns obs) (h_ns mdl).
Definition rbm_sim (obs mdl : list (list N * list N)) : bool :=
  forallb (fun o => existsb (fun m => leqb (fst o) (fst m) && leqb (snd o) (snd m)) mdl) obs
  && forallb (fun m => existsb (fun o => leqb (fst o) (fst m)) obs) mdl
  && nodup_keys obs.
Definition hmsg_sim (obs mdl : hmsg) : bool :=
  leqb (m_peer obs) (m_peer mdl) && leqb (m_name obs) (m_name mdl) && leqb (m_ih obs) (m_ih mdl)
  && leqb (m_bits obs) (m_bits mdl) && rbm_sim (m_rb obs) (m_rb mdl) && leqb (m_ns obs) (m_ns mdl).

Definition agrees (c : case) : bool :=
  match c with
  | CaseParse cd inp o1 o2 o3 =>
      let '(r1, r2, r3) := parse_chain cd inp in
      res_eqb val_eqb o1 r1 && res_eqb leqb o2 r2 && res_eqb val_eqb o3 r3
  | CasePrint cd v o1 o2 =>
      let '(r1, r2) := print_chain cd v in
      res_eqb leqb o1 r1 && res_eqb val_eqb o2 r2
  | CaseHsPrint h o1 o2 =>
      let '(m, r2) := hs_print_chain h in
      res_eqb hmsg_sim o1 (Ok m) && res_eqb hs_sim o2 r2
  | CaseHsParse isb body o1 o2 o3 =>
      (* the second and third step are evaluated from the OBSERVED first result, so that a
         message spelling one peer id twice (Go keeps either entry) stays comparable *)
      let r1 := hs_parse isb body in
      let r2 := match o1 with Ok h => Ok (hs_print h) | _ => Err end in
      let r3 := match o2 with Ok m => hs_parse true (Some m) | _ => Err end in
      res_eqb hs_sim o1 r1 && res_eqb hmsg_sim o2 r2 && res_eqb hs_sim o3 r3
  end.

Definition mismatches (cs : list case) : list N := idx_filter (fun c => negb (agrees c)) 0%N cs.
Definition violations (cs : list case) : list N := idx_filter (fun c => negb (C39_check c)) 0%N cs.
