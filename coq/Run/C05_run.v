(* evaluators used by generated cases files; depends on the model only *)
From Coq Require Import List NArith Bool.
From K.Model Require Export C05.
Import ListNotations.
Local Open Scope N_scope.

(* what the harness tells about the environment of one case: shard path of every name, the SHA-256
   table (content -> name; any other content hashes to no name of the case), the serialised metainfo
   of (name, piece length) as computed by core.NewMetaInfo on the name's content, the configured
   piece length, the number of upload slots and of names *)
Record cfg := mkcfg { c_shards : list (N * list N); c_htab : list (bytes * N); c_mtab : list (N * N * bytes);
                      c_pl : N; c_nslots : N; c_nblobs : N }.

Definition no_name : N := 999999.
Fixpoint hlook (t : list (bytes * N)) (c : bytes) : N :=
  match t with [] => no_name | (b, d) :: r => if nlist_eqb b c then d else hlook r c end.
Fixpoint blook (t : list (bytes * N)) (d : N) : bytes :=
  match t with [] => [] | (b, d') :: r => if d' =? d then b else blook r d end.
Fixpoint slook (t : list (N * list N)) (d : N) : list N :=
  match t with [] => [] | (d', p) :: r => if d' =? d then p else slook r d end.
Fixpoint mlook (t : list (N * N * bytes)) (d pl : N) : bytes :=
  match t with [] => [] | (d', pl', b) :: r => if (d' =? d) && (pl' =? pl) then b else mlook r d pl end.

Definition case_env (c : cfg) : env :=
  mkenv (hlook (c_htab c))
        (fun d _ pl => mlook (c_mtab c) d pl)
        (fun b => existsb (fun e => nlist_eqb (snd e) b) (c_mtab c))
        (fun d blob b => (hlook (c_htab c) blob =? d) && existsb (fun e => (fst (fst e) =? d) && nlist_eqb (snd e) b) (c_mtab c))
        (fun _ => c_pl c)
        (slook (c_shards c))
        (blook (c_htab c)).

(* one case = one history on the real origin: environment, operations (with the oracles the
   implementation chose), the results it returned, its normalised mutating-call trace (from the
   start of the process), and for every crash point (prefix of the trace, 0..n) what the REAL
   restarted origin showed; run-length encoded *)
Record case := mkcase { c_cfg : cfg; c_ops : list op; c_outs : list out; c_trace : list call; c_rle : list (nat * robs) }.
Definition c_recs (c : case) : list robs := flat_map (fun p => repeat (snd p) (fst p)) (c_rle c).

(* abbreviations used by the harness to keep the cases files small *)
Definition ka : kobs := mkkobs false None MAbsent MAbsent MAbsent MAbsent.

Definition out_eqb (a b : out) : bool :=
  match a, b with
  | OOk, OOk | ONotFound, ONotFound | OConflict, OConflict | OAccepted, OAccepted | OErr, OErr | OIllegal, OIllegal => true
  | _, _ => false
  end.
Definition area_eqb (a b : area) : bool := match a, b with AUp, AUp | ACa, ACa => true | _, _ => false end.
Definition fname_eqb (a b : fname) : bool :=
  match a, b with FData, FData | FLat, FLat | FPersist, FPersist | FMeta, FMeta => true | _, _ => false end.
Definition call_eqb (a b : call) : bool :=
  match a, b with
  | CMkRoot x, CMkRoot y => area_eqb x y
  | CMkShard p, CMkShard q => nlist_eqb p q
  | CMkDir x k, CMkDir y l => area_eqb x y && (k =? l)
  | CCreate x k f, CCreate y l g => area_eqb x y && (k =? l) && fname_eqb f g
  | CWrite x k f o d, CWrite y l g p e => area_eqb x y && (k =? l) && fname_eqb f g && (o =? p) && nlist_eqb d e
  | CTrunc x k f n, CTrunc y l g m => area_eqb x y && (k =? l) && fname_eqb f g && (n =? m)
  | CRename u d, CRename v e => (u =? v) && (d =? e)
  | CUnlink x k f, CUnlink y l g => area_eqb x y && (k =? l) && fname_eqb f g
  | CRmDir x k, CRmDir y l => area_eqb x y && (k =? l)
  | _, _ => false
  end.
Fixpoint list_eqb {A} (eq : A -> A -> bool) (a b : list A) : bool :=
  match a, b with
  | [], [] => true
  | x :: a', y :: b' => eq x y && list_eqb eq a' b'
  | _, _ => false
  end.
Definition obytes_eqb (a b : option bytes) : bool :=
  match a, b with Some x, Some y => nlist_eqb x y | None, None => true | _, _ => false end.
Definition kobs_eqb (a b : kobs) : bool :=
  Bool.eqb (k_listed a) (k_listed b) && obytes_eqb (k_data a) (k_data b) && mc_eqb (k_md a) (k_md b)
  && mc_eqb (k_gm a) (k_gm b) && mc_eqb (k_fin a) (k_fin b) && mc_eqb (k_rt a) (k_rt b).
Definition robs_eqb (a b : robs) : bool :=
  Bool.eqb (r_open a) (r_open b) && Bool.eqb (r_upempty a) (r_upempty b) && nlist_eqb (r_listed a) (r_listed b)
  && list_eqb kobs_eqb (r_keys a) (r_keys b).

Fixpoint idx_filter (f : case -> bool) (i : N) (cs : list case) : list N :=
  match cs with
  | [] => []
  | c :: t => if f c then i :: idx_filter f (N.succ i) t else idx_filter f (N.succ i) t
  end.

Definition case_run (c : case) : list sres :=
  let E := case_env (c_cfg c) in
  fst (run E (mem0 (c_nslots (c_cfg c))) (exec (open_b fs0) fs0) (c_ops c)).
Definition case_trace (c : case) : list call :=
  epoch_calls (case_env (c_cfg c)) (c_nslots (c_cfg c)) fs0 (c_ops c).
Definition case_recs (c : case) : list robs :=
  model_recs (case_env (c_cfg c)) (c_nslots (c_cfg c)) (c_nblobs (c_cfg c)) (c_ops c).

(* correspondence part (1): results and the normalised trace of the real code = the model program's;
   part (2): at every crash prefix the real recovery's observables = the model's *)
Definition agrees (c : case) : bool :=
  list_eqb out_eqb (map sr_out (case_run c)) (c_outs c)
  && list_eqb call_eqb (case_trace c) (c_trace c)
  && all_ok (case_trace c) fs0
  && list_eqb robs_eqb (case_recs c) (c_recs c).

Definition mismatches (cs : list case) : list N := idx_filter (fun c => negb (agrees c)) 0%N cs.
Definition violations (cs : list case) : list N :=
  idx_filter (fun c => negb (C05_check (case_env (c_cfg c)) (c_recs c))) 0%N cs.

(* debugging aids *)
Fixpoint first_diff {A} (eq : A -> A -> bool) (i : N) (a b : list A) : option N :=
  match a, b with
  | [], [] => None
  | x :: a', y :: b' => if eq x y then first_diff eq (N.succ i) a' b' else Some i
  | _, _ => Some i
  end.
Definition diag (c : case) :=
  (list_eqb out_eqb (map sr_out (case_run c)) (c_outs c),
   first_diff call_eqb 0 (case_trace c) (c_trace c),
   all_ok (case_trace c) fs0,
   first_diff robs_eqb 0 (case_recs c) (c_recs c)).
