(* evaluators used by generated cases files; depends on the model only *)
From Coq Require Import List NArith ZArith Bool.
From K.Gen Require Import C10_consts.
From K.Model Require Export C10.
Import ListNotations.
Local Open Scope Z_scope.

Inductive case :=
| CHist (capcfg t0 : Z) (ops : list op) (o : list obs)   (* history on a CAStore configured with Capacity capcfg *)
| CCmp (l r : finfo) (sgn : Z)                           (* sign of cachedInAgentPolicy l r *)
| CDef (c r : cfg).                                      (* CleanupConfig.applyDefaults c = r *)

(* config.go:56 CAStoreConfig.applyDefaults *)
Definition eff_cap (c : Z) : Z := if c =? 0 then castore_default_capacity else c.

(* ---- structural equality of observations; files and map names compared as sorted lists *)
Definition optZ_eqb (a b : option Z) : bool :=
  match a, b with Some x, Some y => x =? y | None, None => true | _, _ => false end.
Definition optb_eqb (a b : option bool) : bool :=
  match a, b with Some x, Some y => Bool.eqb x y | None, None => true | _, _ => false end.
Definition file_eqb (a b : file) : bool :=
  (f_mtime a =? f_mtime b) && (f_size a =? f_size b) && optZ_eqb (f_lat a) (f_lat b)
  && optb_eqb (f_persist a) (f_persist b).
Definition res_eqb (a b : res) : bool :=
  match a, b with
  | ROk, ROk | RPersisted, RPersisted | RNotExist, RNotExist | RErr, RErr => true
  | _, _ => false
  end.
Definition out_eqb (a b : out) : bool :=
  match a, b with
  | ORes x, ORes y => res_eqb x y
  | OPass l e, OPass l' e' => Bool.eqb l l' && Bool.eqb e e'
  | ODel d f, ODel d' f' => Bool.eqb d d' && Bool.eqb f f'
  | _, _ => false
  end.

Fixpoint ins {V} (p : N * V) (l : list (N * V)) : list (N * V) :=
  match l with
  | [] => [p]
  | q :: t => if (fst p <=? fst q)%N then p :: l else q :: ins p t
  end.
Definition sort_keys {V} (l : list (N * V)) : list (N * V) := fold_right ins [] l.

Fixpoint files_eqb (a b : list (N * file)) : bool :=
  match a, b with
  | [], [] => true
  | (n, f) :: a', (m, g) :: b' => N.eqb n m && file_eqb f g && files_eqb a' b'
  | _, _ => false
  end.
Fixpoint names_eqb (a b : list N) : bool :=
  match a, b with
  | [], [] => true
  | x :: a', y :: b' => N.eqb x y && names_eqb a' b'
  | _, _ => false
  end.
Definition sort_names (l : list N) : list N := map fst (sort_keys (map (fun n => (n, tt)) l)).

Definition obs_eqb (m i : obs) : bool :=
  let '(mo, md, mm) := m in
  let '(io, id, im) := i in
  out_eqb mo io && files_eqb (sort_keys md) (sort_keys id) && names_eqb (sort_names mm) (sort_names im).
Fixpoint obsl_eqb (a b : list obs) : bool :=
  match a, b with
  | [], [] => true
  | x :: a', y :: b' => obs_eqb x y && obsl_eqb a' b'
  | _, _ => false
  end.

Definition cfg_eqb (a b : cfg) : bool :=
  (c_interval a =? c_interval b) && (c_tti a =? c_tti b) && (c_ttl a =? c_ttl b)
  && (c_athr a =? c_athr b) && (c_attl a =? c_attl b) && (c_alow a =? c_alow b).

(* the model agrees with the implementation's observations *)
Definition agrees (c : case) : bool :=
  match c with
  | CHist capcfg t0 ops o => obsl_eqb (snd (run (init (eff_cap capcfg) t0) ops)) o
  | CCmp l r sgn => Z.sgn (policy_cmp l r) =? sgn
  | CDef c r => cfg_eqb (apply_defaults c) r
  end.

(* the property evaluated on the implementation's observations, specification side only *)
Definition holds (c : case) : bool :=
  match c with
  | CHist capcfg t0 ops o => C10_check (eff_cap capcfg) t0 ops o
  | CCmp l r sgn =>
      (* served to consumers first, then surely-in-agent, then least recently accessed *)
      let a := (fi_download l, fi_access l) in
      let b := (fi_download r, fi_access r) in
      (if sgn <? 0 then rank_le a b && negb (rank_le b a)
       else if 0 <? sgn then rank_le b a && negb (rank_le a b)
       else rank_le a b && rank_le b a)
  | CDef c r => (0 <? c_tti r) && (0 <? c_interval r) && (if c_athr r =? 0 then true else 0 <? c_attl r)
  end.

Fixpoint idx_filter (f : case -> bool) (i : N) (cs : list case) : list N :=
  match cs with
  | [] => []
  | c :: t => if f c then i :: idx_filter f (N.succ i) t else idx_filter f (N.succ i) t
  end.

Definition mismatches (cs : list case) : list N := idx_filter (fun c => negb (agrees c)) 0%N cs.
Definition violations (cs : list case) : list N := idx_filter (fun c => negb (holds c)) 0%N cs.
