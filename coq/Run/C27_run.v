(* evaluators used by generated cases files; depends on the model only *)
From Coq Require Import List NArith ZArith Bool.
From K.Model Require Export C27.
Import ListNotations.

Record case := mkcase { c_ttl : N; c_ops : list op }.

Fixpoint idx_filter (f : case -> bool) (i : N) (cs : list case) : list N :=
  match cs with
  | [] => []
  | c :: t => if f c then i :: idx_filter f (N.succ i) t else idx_filter f (N.succ i) t
  end.

(* the observed Get results are not results of the model on that history *)
Definition mismatches (cs : list case) : list N :=
  idx_filter (fun c => match run (c_ttl c) (c_ops c) with Some _ => false | None => true end) 0%N cs.
Definition violations (cs : list case) : list N :=
  idx_filter (fun c => negb (C27_check (c_ttl c) (c_ops c))) 0%N cs.
