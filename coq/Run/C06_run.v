(* evaluators used by generated cases files; depends on the model only *)
From Coq Require Import List NArith Bool.
From K.Model Require Export C06.
Import ListNotations.
Local Open Scope N_scope.

(* one case = one history on the real store: configuration, operations (with the oracles the
   implementation chose), the results it returned, its normalised mutating-call trace, and for
   every crash point (prefix of the trace, 0..n) what the REAL recovery showed *)
(* [c_rle]: the per-crash-point observations, run-length encoded (consecutive crash points often show
   the same recovered store) *)
Record case := mkcase { c_cfg : cfg; c_ops : list op; c_outs : list out; c_trace : list call; c_rle : list (nat * robs) }.
Definition c_recs (c : case) : list robs := flat_map (fun p => repeat (snd p) (fst p)) (c_rle c).
(* abbreviations used by the harness to keep the cases files small *)
Definition p3 : list (bool * bool * bool) := [(true, true, true); (true, true, true); (true, true, true)].
Definition n3 : list (option bytes) := [None; None; None].
Definition ab : kobs := absent.

Definition out_eqb (a b : out) : bool :=
  match a, b with
  | OOk, OOk | ONotExist, ONotExist | OExist, OExist | ONoSpace, ONoSpace | OErr, OErr | OIllegal, OIllegal => true
  | _, _ => false
  end.
Definition fname_eqb (a b : fname) : bool :=
  match a, b with
  | FData, FData | FSize, FSize | FBan, FBan => true
  | FMd s, FMd t | FTmp s, FTmp t => s =? t
  | _, _ => false
  end.
Definition omode_eqb (a b : omode) : bool :=
  match a, b with OExcl, OExcl | OPlain, OPlain | OTrunc, OTrunc => true | _, _ => false end.
Definition call_eqb (a b : call) : bool :=
  match a, b with
  | CMkShard x p, CMkShard y q => area_eqb x y && nlist_eqb p q
  | CMkBlob x k, CMkBlob y l => area_eqb x y && (k =? l)
  | COpen x k f m, COpen y l g n => area_eqb x y && (k =? l) && fname_eqb f g && omode_eqb m n
  | CWrite x k f o d, CWrite y l g p e => area_eqb x y && (k =? l) && fname_eqb f g && (o =? p) && nlist_eqb d e
  | CRenDir k, CRenDir l => k =? l
  | CRenFile x k f g, CRenFile y l f' g' => area_eqb x y && (k =? l) && fname_eqb f f' && fname_eqb g g'
  | CUnlink x k f, CUnlink y l g => area_eqb x y && (k =? l) && fname_eqb f g
  | CRmBlob x k, CRmBlob y l => area_eqb x y && (k =? l)
  | _, _ => false
  end.

Fixpoint idx_filter (f : case -> bool) (i : N) (cs : list case) : list N :=
  match cs with
  | [] => []
  | c :: t => if f c then i :: idx_filter f (N.succ i) t else idx_filter f (N.succ i) t
  end.

(* correspondence part (1): results and the normalised trace of the real code = the model program's;
   part (2): at every crash prefix the real recovery's observables = the model's [recover] *)
Definition agrees (c : case) : bool :=
  let rs := run (c_cfg c) init (c_ops c) in
  list_eqb out_eqb (map sr_out rs) (c_outs c)
  && list_eqb call_eqb (trace rs) (c_trace c)
  && all_ok (trace rs) (disk init)
  && list_eqb robs_eqb (model_recs (c_cfg c) (c_ops c)) (c_recs c).

Definition mismatches (cs : list case) : list N := idx_filter (fun c => negb (agrees c)) 0%N cs.
Definition violations (cs : list case) : list N :=
  idx_filter (fun c => negb (C06_check (c_cfg c) (c_ops c) (c_recs c))) 0%N cs.

(* debugging aid: first crash point at which model and implementation differ *)
Fixpoint first_diff (i : N) (a b : list robs) : option N :=
  match a, b with
  | [], [] => None
  | x :: a', y :: b' => if robs_eqb x y then first_diff (N.succ i) a' b' else Some i
  | _, _ => Some i
  end.
