(* evaluators used by generated cases files; depends on the model only *)
From Coq Require Import List NArith ZArith Bool.
From K.Model Require Export C15.
Import ListNotations.

Record case := mkcase { c_cfg : cfg; c_ops : list op; c_obs : list out }.

Fixpoint idx_filter (f : case -> bool) (i : N) (cs : list case) : list N :=
  match cs with
  | [] => []
  | c :: t => if f c then i :: idx_filter f (N.succ i) t else idx_filter f (N.succ i) t
  end.

(* the two-index model (with the fixed ClearPeer) against the implementation's outputs *)
Definition mismatches (cs : list case) : list N :=
  idx_filter (fun c => negb (outs_eqb (snd (run (c_cfg c) init (c_ops c))) (c_obs c))) 0%N cs.
(* the property oracle (flat-log specification) on the implementation's outputs *)
Definition violations (cs : list case) : list N :=
  idx_filter (fun c => negb (C15_check (c_cfg c) (c_ops c) (c_obs c))) 0%N cs.
