#!/bin/sh
# Offline setup after a fresh restore: build the Coq development and warm the Go build cache.
set -e
cd "$(dirname "$0")"
export GOFLAGS=-mod=mod GOPROXY=off
unset GOSUMDB GOTOOLCHAIN
mkdir -p run evidence replays harness/bin
./harness/mkmod.sh
if [ -d harness/tools/genconsts ]; then (cd harness && go run ./tools/genconsts "${VERIF_REPO:-/repo}" ../coq/Gen/Consts.v) ; fi
./coq/mkproject.sh
(cd coq && timeout 7200 make -j16 >/dev/null 2>run_make.log || { tail -50 run_make.log; exit 1; }; rm -f run_make.log)
(cd "${VERIF_REPO:-/repo}" && go build ./... 2>/dev/null || true)
for d in harness/*/; do
  if [ -f "$d/main.go" ]; then (cd harness && go build -tags verif -o bin/$(basename $d) ./$(basename $d)) ; fi
done
echo setup done
