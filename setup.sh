#!/bin/sh
# Offline setup after a fresh restore: generate Gen/*.v from /repo, build the whole Coq
# development (full .vo build), build every Go driver against /repo (warms the Go build cache).
cd "$(dirname "$0")"
mkdir -p run evidence replays harness/bin
exec python3 lib/check.py --setup
